import NpsVerif.Model.HashTable
import NpsVerif.Model.Scan
import NpsVerif.Gen.Bridge.ht_hash
import NpsVerif.Props.C11Assumed
import NpsVerif.Proofs.CounterDict
import NpsVerif.Proofs.FastPaths
/-! Property C12 (`Counter`): totals of counted samples, independence of order and batch splitting,
and the two fast paths (`_get_flat_indices_fast`, `_broadcast_values_fast`) the counter relies on.
The table side rests on the refinement theorem `Props.C11.C11_refines`. -/
open Model Model.HT

namespace Props.C12
open Props.C11

/-- batches of samples as a history: count, count, … then one lookup of all keys -/
def countOps (batches : List (List Int)) : List Op := batches.map Op.count

/-- every operation of a counting history followed by a total observation is well-formed -/
theorem wf_countOps (keys : List Int) (batches : List (List Int)) (last : Op) (hl : WF keys last) :
    ∀ op ∈ countOps batches ++ [last], WF keys op := by
  intro op hop
  rcases List.mem_append.mp hop with h | h
  · obtain ⟨b, _, rfl⟩ := List.mem_map.mp h
    trivial
  · rw [List.mem_singleton.mp h]
    exact hl

/-- the key order of the initial dictionary is `keys` -/
theorem dict0_keys (keys : List Int) (vals : Sum Int (List Int)) (hv : ValsOK keys vals) :
    (dict0 keys vals).map (·.1) = keys := by
  cases vals with
  | inl s => simp [dict0, List.map_map, Function.comp_def]
  | inr vs =>
    have : vs.length = keys.length := hv
    exact List.map_fst_zip (by omega)

/-- totals: initial value + number of occurrences in all samples so far; non-keys are ignored -/
theorem C12_totals (keys : List Int) (hnd : keys.Nodup) (vals : Sum Int (List Int)) (hv : ValsOK keys vals)
    (mod : Nat) (hm : 0 < mod) (args : List Nat) (hs : IsSortingPerm args (keys.map (hashOf mod)))
    (batches : List (List Int)) :
    ∃ t, build keys vals mod args = some t ∧
      (Model.HT.run t (countOps batches ++ [.getVec keys])).getLast? =
        some (.vals (some ((dict0 keys vals).map (fun p => p.2 + ((batches.flatten.count p.1 : Nat) : Int))))) := by
  obtain ⟨t, hb, hr⟩ := C11_refines keys hnd vals hv mod hm args hs
    (countOps batches ++ [.getVec keys]) (wf_countOps keys batches (.getVec keys) trivial)
  refine ⟨t, hb, ?_⟩
  rw [hr]
  have hk := dict0_keys keys vals hv
  have := Spec.Dict.run_counts_getVec (dict0 keys vals) (by rw [hk]; exact hnd) batches
  rw [hk] at this
  exact this

/-- the totals depend only on the multiset of samples: order and batch-splitting are irrelevant -/
theorem C12_order_split_invariant (keys : List Int) (hnd : keys.Nodup) (vals : Sum Int (List Int)) (hv : ValsOK keys vals)
    (mod : Nat) (hm : 0 < mod) (args : List Nat) (hs : IsSortingPerm args (keys.map (hashOf mod)))
    (b1 b2 : List (List Int)) (hperm : b1.flatten.Perm b2.flatten) :
    ∃ t, build keys vals mod args = some t ∧
      (Model.HT.run t (countOps b1 ++ [.items])).getLast? = (Model.HT.run t (countOps b2 ++ [.items])).getLast? := by
  obtain ⟨t, hb, hr1⟩ := C11_refines keys hnd vals hv mod hm args hs
    (countOps b1 ++ [.items]) (wf_countOps keys b1 .items trivial)
  obtain ⟨t', hb', hr2⟩ := C11_refines keys hnd vals hv mod hm args hs
    (countOps b2 ++ [.items]) (wf_countOps keys b2 .items trivial)
  have ht : t' = t := by
    rw [hb] at hb'
    exact (Option.some.inj hb').symm
  subst ht
  refine ⟨t', hb, ?_⟩
  rw [hr1, hr2]
  unfold countOps
  rw [Spec.Dict.run_counts_items, Spec.Dict.run_counts_items, Spec.Dict.addCounts_perm _ _ _ hperm]

/-- the fast gather-index builder equals the general one on views without empty rows -/
theorem C12_flat_indices_fast (codes : List (Nat × Nat)) (hne : ∀ c ∈ codes, 0 < c.2) :
    flatIndicesFast codes = viewFlatIndices codes := by
  rw [flatIndicesFast_eq codes hne, viewFlatIndices_eq]

/-- the fast column broadcast (diff + cumsum) repeats entry i over row i on shapes without empty rows -/
theorem C12_broadcast_fast (lens : List Nat) (vals : List Int) (hne : ∀ l ∈ lens, 0 < l)
    (hl : vals.length = lens.length) :
    broadcastFast lens vals = repeatRows lens vals :=
  broadcastFast_eq lens vals hne hl

/- non-vacuity of the fast paths: hypotheses hold, rows of length 1 included -/
example : (∀ c ∈ [(3, 2), (0, 1), (7, 3)], 0 < c.2) ∧
    flatIndicesFast [(3, 2), (0, 1), (7, 3)] = [3, 4, 0, 7, 8, 9] ∧
    viewFlatIndices [(3, 2), (0, 1), (7, 3)] = [3, 4, 0, 7, 8, 9] := by decide

example : (∀ l ∈ [2, 1, 3], 0 < l) ∧ ([5, -1, 7] : List Int).length = [2, 1, 3].length ∧
    broadcastFast [2, 1, 3] [5, -1, 7] = [5, 5, -1, 7, 7, 7] ∧
    repeatRows [2, 1, 3] ([5, -1, 7] : List Int) = [5, 5, -1, 7, 7, 7] := by decide

/- the hypothesis "no empty row" is needed: with an empty row the fast builders are wrong -/
example : flatIndicesFast [(3, 2), (6, 0), (7, 1)] ≠ viewFlatIndices [(3, 2), (6, 0), (7, 1)] := by decide

example : broadcastFast [2, 0, 1] [5, -1, 7] ≠ repeatRows [2, 0, 1] ([5, -1, 7] : List Int) := by decide

/- the table side on a concrete instance (no appeal to C11): batches [2,9,2], [], [7,2,5] on keys
5, 2, 7 (hashes 2, 2, 1 modulo 3, sorted by the permutation [2, 0, 1]) with initial values 10, 0, -1; the sample 9 is not a key and is ignored -/
example : ((build [5, 2, 7] (.inr [10, 0, -1]) 3 [2, 0, 1]).map
      (fun t => (Model.HT.run t (countOps [[2, 9, 2], [], [7, 2, 5]] ++ [.getVec [5, 2, 7]])).getLast?)) =
    some (some (.vals (some [11, 3, 0]))) := by decide

/- that instance satisfies the hypotheses of `C12_totals` -/
example : ([5, 2, 7] : List Int).Nodup ∧ ValsOK [5, 2, 7] (.inr [10, 0, -1]) ∧
    IsSortingPerm [2, 0, 1] ([5, 2, 7].map (hashOf 3)) := by
  unfold IsSortingPerm ValsOK; decide

end Props.C12
