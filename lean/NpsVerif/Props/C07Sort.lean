import NpsVerif.Model.Structural
import NpsVerif.Spec.Rows
import NpsVerif.Props.C01
import NpsVerif.Proofs.SortRows
import NpsVerif.Proofs.UniqueRows
/-!
# Property C07 — `sort` and `unique` of a ragged array work row by row

`sortRows` is the transliteration of `RaggedArray.sort` (stable `lexsort` on (row index, value));
`uniqueRows` the one of `arrayfunctions.unique(..., return_counts=True)` with its change mask,
`cumsum` bookkeeping and the `total_counts[-1] = 0` hack.  Helper lemmas live in
`Proofs/SortRows.lean` and `Proofs/UniqueRows.lean`.
-/
open Model

namespace Props.C07
open Proofs.SortRows Proofs.UniqueRows
variable {α : Type}

/-- sort: for any comparison that is total and transitive, every result row is sorted and a
permutation of the corresponding input row; row count and lengths unchanged -/
theorem C07_sort (le : α → α → Bool) (htot : ∀ a b, le a b = true ∨ le b a = true)
    (htrans : ∀ a b c, le a b = true → le b c = true → le a c = true) (rows : List (List α)) :
    ((sortRows le (RA.ofRows rows)).rows.length = rows.length) ∧
    ∀ (i : Nat) (r : List α), rows[i]? = some r →
      ∃ s, (sortRows le (RA.ofRows rows)).rows[i]? = some s ∧ s.Perm r ∧ s.Pairwise (fun a b => le a b = true) := by
  obtain ⟨blocks, _, hrows, hlen, _, hb⟩ := sortRows_blocks le htot htrans rows
  rw [hrows]
  refine ⟨hlen, ?_⟩
  intro i r hr
  have hi : i < blocks.length := by
    have := (List.getElem?_eq_some_iff.1 hr).1
    omega
  have hbi : blocks[i]? = some blocks[i] := List.getElem?_eq_getElem hi
  exact ⟨blocks[i], hbi, hb i _ r hbi hr⟩

/-- sort on integers: each row is THE sorted row -/
theorem C07_sort_int (rows : List (List Int)) :
    (sortRows (fun (x y : Int) => decide (x ≤ y)) (RA.ofRows rows)).rows =
      rows.map (fun r => r.mergeSort (fun x y => decide (x ≤ y))) :=
  (sortRows_int rows).2

theorem all_nil_of_sum_zero (rows : List (List α)) (h : (rows.map List.length).sum = 0) :
    ∀ r ∈ rows, r = [] := by
  induction rows with
  | nil => simp
  | cons r rs ih =>
    simp only [List.map_cons, List.sum_cons] at h
    intro r' hr'
    rcases List.mem_cons.1 hr' with rfl | hr'
    · exact List.eq_nil_of_length_eq_zero (by omega)
    · exact ih (by omega) r' hr'

/-- unique with counts on integers: sorted distinct values of each row and their multiplicities;
empty rows stay empty wherever they are -/
theorem C07_unique_int (rows : List (List Int)) :
    uniqueRows (fun (x y : Int) => decide (x ≤ y)) (fun x y => x != y) (RA.ofRows rows) =
      some (rows.map (fun r => (Spec.dedupCounts (fun (x y : Int) => x != y) (r.mergeSort (fun x y => decide (x ≤ y)))).map (·.1)),
            rows.map (fun r => (Spec.dedupCounts (fun (x y : Int) => x != y) (r.mergeSort (fun x y => decide (x ≤ y)))).map (·.2))) := by
  have hsize : (RA.ofRows rows).size = (rows.map List.length).sum := (Props.C01.C01_of_rows rows).2.2.1
  by_cases h0 : (RA.ofRows rows).size = 0
  · have hnil := all_nil_of_sum_zero rows (by rw [← hsize]; exact h0)
    unfold uniqueRows
    rw [if_pos h0, (Props.C01.C01_of_rows rows).1]
    congr 2
    · apply List.ext_getElem?
      intro i
      rw [List.getElem?_map]
      cases hi : rows[i]? with
      | none => rfl
      | some r =>
        have := hnil r (List.mem_of_getElem? hi)
        subst this
        simp [Spec.dedupCounts]
    · apply List.map_congr_left
      intro r hr
      have := hnil r hr
      subst this
      simp [Spec.dedupCounts]
  · let R : List (List Int) := rows.map (fun r => r.mergeSort (fun x y => decide (x ≤ y)))
    have hdata : (sortRows (fun (x y : Int) => decide (x ≤ y)) (RA.ofRows rows)).data = R.flatten :=
      (sortRows_int rows).1
    have hlens : R.map List.length = rows.map List.length := by
      simp [R, Function.comp_def, List.length_mergeSort]
    have hshape : (RA.ofRows rows).shape = Shape.ofLens (R.map List.length) := by
      rw [hlens]; rfl
    have hne : R.flatten ≠ [] := by
      intro hnil
      have h1 : R.flatten.length = (R.map List.length).sum := List.length_flatten
      rw [hnil, hlens, ← hsize] at h1
      exact h0 h1.symm
    have key := unique_core (fun (x y : Int) => x != y) R hne
    dsimp only at key
    unfold uniqueRows
    rw [if_neg h0]
    dsimp only
    rw [hdata, hshape]
    rw [key]
    simp only [R, List.map_map, Function.comp_def]

/-! ## non-vacuity: concrete arrays (empty rows at the start, in the middle, at the end) -/

example : (sortRows (fun (x y : Int) => decide (x ≤ y)) (RA.ofRows [[], [3, 1, 3], [], [5, 5], []])).rows
    = [[], [1, 3, 3], [], [5, 5], []] := by
  rw [C07_sort_int]; simp [List.mergeSort]

example : uniqueRows (fun (x y : Int) => decide (x ≤ y)) (fun x y => x != y)
      (RA.ofRows [[], [3, 1, 3], [], [5, 5], []])
    = some ([[], [1, 3], [], [5], []], [[], [1, 2], [], [2], []]) := by
  rw [C07_unique_int]; simp [Spec.dedupCounts, List.mergeSort]

/-- all rows empty (the `size == 0` shortcut) -/
example : uniqueRows (fun (x y : Int) => decide (x ≤ y)) (fun x y => x != y) (RA.ofRows [[], [], []])
    = some ([[], [], []], [[], [], []]) := by
  rw [C07_unique_int]; simp [Spec.dedupCounts]

/-- zero rows -/
example : uniqueRows (fun (x y : Int) => decide (x ≤ y)) (fun x y => x != y) (RA.ofRows [])
    = some ([], []) := by
  rw [C07_unique_int]; simp

example : (sortRows (fun (x y : Int) => decide (x ≤ y)) (RA.ofRows ([] : List (List Int)))).rows = [] := by
  rw [C07_sort_int]; simp

end Props.C07
