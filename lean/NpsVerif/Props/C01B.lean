import NpsVerif.Model.Equals
import NpsVerif.Proofs.Equals
/-!
# Property C01 (b) — `RaggedArray.equals`

`equals` compares the flat buffers cell by cell and the stored (start, length) codes.  For arrays built from
lists of rows this is exactly equality of the rows — provided the cell test decides equality.  With IEEE `==`
(not reflexive on NaN) an array holding a NaN is not `equals` to itself.
-/
namespace Props.C01B
open Model
variable {α : Type}

/-- two arrays built from lists of rows are `equals` exactly when they have the same rows (for a cell test that decides equality) -/
theorem C01_equals (eq : α → α → Bool) (heq : ∀ a b, eq a b = true ↔ a = b) (r1 r2 : List (List α)) :
    (RA.ofRows r1).equals eq (RA.ofRows r2) = true ↔ r1 = r2 := by
  rw [equals_iff eq heq]
  constructor
  · rintro ⟨hd, hc⟩; exact ofRows_inj r1 r2 hd hc
  · rintro rfl; exact ⟨rfl, rfl⟩

/-- with a cell test that is not reflexive (IEEE `==` on NaN) an array is not even equal to itself -/
theorem C01_equals_irreflexive_counterexample :
    ∃ (eq : Nat → Nat → Bool) (r : List (List Nat)), (RA.ofRows r).equals eq (RA.ofRows r) = false :=
  ⟨fun a b => a == b && a != 7, [[1, 7], [3]], by decide⟩

/- non-vacuity: equal rows; the same cells cut into other rows; the same lengths with one cell changed;
   buffers of different sizes -/
example : (RA.ofRows [[1, 2], [], [3]]).equals (· == ·) (RA.ofRows [[1, 2], [], [3]]) = true := by decide
example : (RA.ofRows [[1, 2], [3]]).equals (· == ·) (RA.ofRows [[1], [2, 3]]) = false := by decide
example : (RA.ofRows [[1, 2], [3]]).equals (· == ·) (RA.ofRows [[1, 2], [4]]) = false := by decide
example : (RA.ofRows [[1, 2], [3]]).equals (· == ·) (RA.ofRows [[1, 2], [3], [4]]) = false := by decide
example : (RA.ofRows [[1, 2], [3]]).equals (· == ·) (RA.ofRows [[1, 2], [3], []]) = false := by decide

end Props.C01B
