import NpsVerif.Model.Index
import NpsVerif.Proofs.C01
import NpsVerif.Proofs.BuildIndices
import NpsVerif.Proofs.Materialise
import NpsVerif.Spec.Cells
/-! Property C02, gather part: the cumsum index builder and the materialisation of views. -/
namespace Props.C02
open Model Gen


/-- the cumsum index builder yields the concatenated arithmetic progressions of the rows
(`rows` = (start, length); empty rows anywhere) -/
theorem C02_build_indices (step : Int) (rows : List (Int × Nat)) :
    buildIndices step (rows.map (fun r => (r.1, r.1 + ((r.2 : Int) - 1) * step + 1, r.2))) =
      (rows.map (fun r => Py.prog r.1 step r.2)).flatten :=
  buildIndices_vrow step rows

/- non-vacuity: empty rows at the start, in the middle and at the end; step 2 and step -1 -/
example : buildIndices 2 (([(3, 0), (5, 2), (1, 0), (9, 3), (4, 0)] : List (Int × Nat)).map
      (fun r => (r.1, r.1 + ((r.2 : Int) - 1) * 2 + 1, r.2))) = [5, 7, 9, 11, 13] ∧
    buildIndices (-1) (([(3, 0), (5, 2), (1, 0), (9, 3), (4, 0)] : List (Int × Nat)).map
      (fun r => (r.1, r.1 + ((r.2 : Int) - 1) * (-1) + 1, r.2))) = [5, 4, 9, 8, 7] := by decide

/-- materialising a row selection returns the selected rows -/
theorem C02_materialise_view {α} (data : List α) (codes : List (Nat × Nat))
    (h : ∀ c ∈ codes, c.1 + c.2 ≤ data.length) :
    materialiseView data codes = some (codes.map (fun c => (data.drop c.1).take c.2)) := by
  have hin : ∀ i ∈ (codes.map (fun c => Py.prog (c.1 : Int) 1 c.2)).flatten,
      0 ≤ i ∧ i < (data.length : Int) := by
    intro i hi
    obtain ⟨l, hl, hil⟩ := List.mem_flatten.mp hi
    obtain ⟨c, hc, rfl⟩ := List.mem_map.mp hl
    have h1 := mem_prog_one c.1 c.2 i hil
    have h2 := h c hc
    omega
  unfold materialiseView
  rw [viewFlatIndices_eq, gather_in_range data _ hin, Option.map_some, List.filterMap_flatten,
    List.map_map]
  congr 1
  have e : codes.map ((List.filterMap fun i => data[i.toNat]?) ∘ fun c => Py.prog (c.1 : Int) 1 c.2)
      = codes.map (fun c => (data.drop c.1).take c.2) := by
    apply List.map_congr_left
    intro c hc
    exact filterMap_prog_one data c.1 c.2 (h c hc)
  rw [e]
  apply cutRows_flatten
  rw [List.map_map]
  apply List.map_congr_left
  intro c hc
  have := h c hc
  simp only [Function.comp, List.length_take, List.length_drop]
  omega

/- non-vacuity: the hypothesis holds and empty rows sit at the start, middle and end -/
example : (∀ c ∈ [(3, 0), (5, 2), (1, 0), (9, 3), (4, 0)], c.1 + c.2 ≤ (List.range 12).length) ∧
    materialiseView (List.range 12) [(3, 0), (5, 2), (1, 0), (9, 3), (4, 0)] =
      some [[], [5, 6], [], [9, 10, 11], []] := by decide

/-- materialising a (start, length, step) view returns, row by row, the cells it addresses -/
theorem C02_materialise_view2 {α} (data : List α) (rows : List Row3) (k : Int)
    (hk : ∀ r ∈ rows, r.2.2 = k) (hl : ∀ r ∈ rows, 0 ≤ r.2.1)
    (hin : ∀ r ∈ rows, ∀ i ∈ cellsOf r, 0 ≤ i ∧ i < data.length) :
    materialiseView2 data rows =
      some (rows.map (fun r => (cellsOf r).filterMap (fun i => data[i.toNat]?))) := by
  have hflat : view2FlatIndices rows = (rows.map cellsOf).flatten :=
    view2FlatIndices_eq rows k hk hl
  have hin' : ∀ i ∈ (rows.map cellsOf).flatten, 0 ≤ i ∧ i < (data.length : Int) := by
    intro i hi
    obtain ⟨l, hl', hil⟩ := List.mem_flatten.mp hi
    obtain ⟨r, hr, rfl⟩ := List.mem_map.mp hl'
    exact hin r hr i hil
  unfold materialiseView2
  rw [hflat, gather_in_range data _ hin', Option.map_some, List.filterMap_flatten, List.map_map]
  congr 1
  apply cutRows_flatten
  rw [List.map_map]
  apply List.map_congr_left
  intro r hr
  simp only [Function.comp]
  rw [filterMap_in_range_length data _ (hin r hr)]
  simp [cellsOf]

/- non-vacuity: hypotheses hold; empty rows at the start, middle and end; step 2 and step -1 -/
example :
    let rows : List Row3 := [(3, 0, 2), (5, 2, 2), (1, 0, 2), (9, 3, 2), (4, 0, 2)]
    (∀ r ∈ rows, r.2.2 = 2) ∧ (∀ r ∈ rows, 0 ≤ r.2.1) ∧
    (∀ r ∈ rows, ∀ i ∈ cellsOf r, 0 ≤ i ∧ i < ((List.range 14).length : Int)) ∧
    materialiseView2 (List.range 14) rows = some [[], [5, 7], [], [9, 11, 13], []] := by decide

example :
    let rows : List Row3 := [(3, 0, -1), (5, 2, -1), (1, 0, -1), (9, 3, -1), (4, 0, -1)]
    (∀ r ∈ rows, r.2.2 = -1) ∧ (∀ r ∈ rows, 0 ≤ r.2.1) ∧
    (∀ r ∈ rows, ∀ i ∈ cellsOf r, 0 ≤ i ∧ i < ((List.range 14).length : Int)) ∧
    materialiseView2 (List.range 14) rows = some [[], [5, 4], [], [9, 8, 7], []] := by decide

end Props.C02
