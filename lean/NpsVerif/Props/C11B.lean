import NpsVerif.Props.C11
import NpsVerif.Proofs.HTWhole
/-!
# Property C11, continued — the whole-table functions agree with the dictionary

`items t` (key, value) pairs in bucket order is the table's dictionary (C11_refines relates it to the `Dict` of the
history).  `zeros_like` / `ones_like`, `+= number`, `+` / `+=` of two tables over the same key rows and `==` act on it
key by key.
-/
namespace Props.C11
open Model Model.HT Proofs.HTWhole

/- `zeros_like` / `ones_like`: same keys, every value `x`.  The statement without a shape hypothesis,
```
theorem C11_like (t : Table Int) (x : Int) : items (likeWith t x) = (items t).map (fun p => (p.1, x))
```
is FALSE: for a table whose stored value rows are shorter than its key rows `items t` loses keys (`zip` truncates)
while `items (likeWith t x)` lists every key.  Counterexample below; `C11_like` therefore carries the alignment hypothesis
`hsh` of the other three theorems (first stated without it; refuted by the proof agent). -/

/-- counterexample to `C11_like` without `hsh`: one key, no stored value rows -/
example : items (likeWith (⟨[[1]], .inr [], 1⟩ : Table Int) 0) ≠ (items (⟨[[1]], .inr [], 1⟩ : Table Int)).map (fun p => (p.1, 0)) := by
  decide

/-- `zeros_like` / `ones_like` for a table whose stored values are aligned with the key rows (`hsh`, the hypothesis of
the other three theorems; it holds for every table made by `build`): same keys, every value `x` -/
theorem C11_like (t : Table Int) (x : Int)
    (hsh : ∀ vals, t.values = .inr vals → vals.map List.length = t.buckets.map List.length) :
    items (likeWith t x) = (items t).map (fun p => (p.1, x)) := by
  have hl := filled_flatten_length t hsh
  unfold items
  rw [filled_inl_flatten (likeWith t x) x rfl]
  exact zip_const x _ _ hl

/-- `t += x`: same keys, every value grows by `x` -/
theorem C11_add_num (t : Table Int) (x : Int)
    (hsh : ∀ vals, t.values = .inr vals → vals.map List.length = t.buckets.map List.length) :
    items (addNum t x) = (items t).map (fun p => (p.1, p.2 + x)) := by
  have _ := hsh  -- not needed: both sides truncate alike
  unfold items
  cases hv : t.values with
  | inl s =>
    have h1 : (addNum t x).values = .inl (s + x) := by unfold addNum; rw [hv]
    have h2 : (addNum t x).buckets = t.buckets := by unfold addNum; rw [hv]
    rw [filled_inl_flatten _ _ h1, filled_inl_flatten _ _ hv, h2, ← zip_map_snd (· + x), List.map_map]
    rfl
  | inr vals =>
    have h1 : filled (addNum t x) = vals.map (·.map (· + x)) :=
      filled_inr _ _ (by unfold addNum; rw [hv])
    have h2 : (addNum t x).buckets = t.buckets := by unfold addNum; rw [hv]
    have h3 : filled t = vals := filled_inr _ _ hv
    rw [h1, h2, h3, ← List.map_flatten, zip_map_snd]

/-- `t + u` over the same key rows: accepted, same keys, values added key by key; different key rows: refused -/
theorem C11_add_table (t u : Table Int)
    (hst : ∀ vals, t.values = .inr vals → vals.map List.length = t.buckets.map List.length)
    (hsu : ∀ vals, u.values = .inr vals → vals.map List.length = u.buckets.map List.length) :
    (t.buckets = u.buckets → ∃ r, addTable t u = some r ∧ r.buckets = t.buckets ∧
        items r = List.zipWith (fun p q => (p.1, p.2 + q.2)) (items t) (items u)) ∧
    (t.buckets ≠ u.buckets → addTable t u = none) := by
  refine ⟨fun hb => ?_, fun hb => by unfold addTable; rw [if_pos hb]⟩
  have hsame : (filled t).map List.length = (filled u).map List.length := by
    rw [filled_shape t hst, filled_shape u hsu, hb]
  have hgen : ∀ r : Table Int, r.buckets = t.buckets →
      r.values = .inr (List.zipWith (List.zipWith (· + ·)) (filled t) (filled u)) →
      items r = List.zipWith (fun p q => (p.1, p.2 + q.2)) (items t) (items u) := by
    intro r hrb hrv
    have : filled r = List.zipWith (List.zipWith (· + ·)) (filled t) (filled u) := filled_inr _ _ hrv
    unfold items
    rw [this, hrb, flatten_zipWith_zipWith _ _ _ hsame, ← hb, zip_zipWith]
  unfold addTable
  rw [if_neg (by simpa using hb)]
  cases hv : t.values with
  | inl a =>
    cases hw : u.values with
    | inl b =>
      refine ⟨_, rfl, rfl, ?_⟩
      unfold items
      rw [filled_inl_flatten _ _ hv, filled_inl_flatten _ _ hw, ← hb,
        filled_inl_flatten ({ t with values := .inl (a + b) } : Table Int) (a + b) rfl,
        ← zip_zipWith (· + ·), zipWith_const]
    | inr w => exact ⟨_, rfl, rfl, hgen _ rfl rfl⟩
  | inr w => exact ⟨_, rfl, rfl, hgen _ rfl rfl⟩

/-- `t == u` over the same key rows holds exactly when the two dictionaries are the same list of pairs -/
theorem C11_table_eq (t u : Table Int) (hb : t.buckets = u.buckets)
    (hst : ∀ vals, t.values = .inr vals → vals.map List.length = t.buckets.map List.length)
    (hsu : ∀ vals, u.values = .inr vals → vals.map List.length = u.buckets.map List.length) :
    tableEq t u = true ↔ items t = items u := by
  have hlt := filled_flatten_length t hst
  have hlu := filled_flatten_length u hsu
  unfold tableEq items
  simp only [hb, decide_true, Bool.true_and, decide_eq_true_eq]
  rw [hb] at hlt
  constructor
  · intro h; rw [h]
  · intro h; exact zip_right_inj _ _ _ (by omega) (by omega) h

/-- `t == u` for tables whose key rows differ -- another key set, or the same bucket layout with some other key of the
same bucket in one place -- is false, whatever the values -/
theorem C11_table_eq_other_keys (t u : Table Int) (hb : t.buckets ≠ u.buckets) : tableEq t u = false := by
  unfold tableEq
  simp [hb]

/- non-vacuity -/
example : tableEq (⟨[[3], [10, 7]], .inr [[1], [2, 3]], 3⟩ : Table Int) ⟨[[3], [13, 7]], .inr [[1], [2, 3]], 3⟩ = false := by decide
example : (build [10, 19, 20] (.inr [1, 2, 3]) 3 [1, 0, 2]).map (fun t => items (addNum t 5)) = some [(19, 7), (10, 6), (20, 8)] := by decide
example : (build [10, 19, 20] (.inr [1, 2, 3]) 3 [1, 0, 2]).bind (fun t => (addTable t (likeWith t 1)).map items) = some [(19, 3), (10, 2), (20, 4)] := by decide

end Props.C11
