import NpsVerif.Model.RunLength2d
import NpsVerif.Spec.Rows
import NpsVerif.Proofs.RL2Rows
import NpsVerif.Proofs.RL2Ravel
import NpsVerif.Proofs.RL2ColCounts
import NpsVerif.Proofs.RL2ColSum
import NpsVerif.Proofs.RL2ColSumInst
/-!
# C17 (second half): `ravel`, `concat`, `col_counts`, `col_sum` of 2-D / ragged run-length arrays

The five statements are exactly the ones of the target file.  `toRows` decodes every row; the 1-D
`RLA.decode` is the specification of the run-length results.  Each `_valid` companion adds that the
result passes the `RunLengthArray` constructor's assertions (it is what the proofs establish anyway).
-/
open Model Model.RL2

namespace Props.C17
variable {α β : Type}

/-- ravel: the rows laid end to end -/
theorem C17_ravel (ne : α → α → Bool) (hne : ∀ x y, ne x y = false → x = y) (rows : List (List α))
    (hpos : ∀ r ∈ rows, r ≠ []) :
    ((fromRagged ne rows).ravel).map RLA.decode = some rows.flatten := by
  obtain ⟨r, h1, _, h3⟩ := Proofs.RL2B.ravel_fromRagged ne hne rows hpos
  rw [h1, Option.map_some, h3]

/-- ravel, with validity of the result -/
theorem C17_ravel_valid (ne : α → α → Bool) (hne : ∀ x y, ne x y = false → x = y) (rows : List (List α))
    (hpos : ∀ r ∈ rows, r ≠ []) :
    ∃ r, (fromRagged ne rows).ravel = some r ∧ r.Valid ∧ r.decode = rows.flatten :=
  Proofs.RL2B.ravel_fromRagged ne hne rows hpos

/-- concatenation: rows of all operands -/
theorem C17_concat (rs : List (RL2 α)) (ds : List (List (List α))) (hr : ∀ r ∈ rs, r.rowLen = none)
    (hd : rs.map RL2.toRows = ds.map some) (hl : ∀ r ∈ rs, r.indices.length = r.values.length) :
    (RL2.concat rs).toRows = some ds.flatten :=
  Proofs.RL2B.concat_toRows rs ds hr hd hl

/-- column counts, with validity of the result -/
theorem C17_col_counts_valid (ne : α → α → Bool) (rows : List (List α)) (hpos : ∀ r ∈ rows, r ≠ []) :
    ∃ r, (fromRagged ne rows).colCounts = some r ∧ r.Valid ∧ r.decode = Spec.colCounts rows := by
  have hlen : (fromRagged ne rows).len = (rows.map List.length).length := by
    simp [RL2.len, Proofs.RL2B.fromRagged_indices]
  obtain ⟨r, h1, h2, h3⟩ := Proofs.RL2B.colCounts_core (rows.map List.length) (by
    intro l hl
    obtain ⟨a, ha, rfl⟩ := List.mem_map.1 hl
    exact List.length_pos_iff.2 (hpos a ha))
  refine ⟨r, ?_, h2, ?_⟩
  · unfold RL2.colCounts
    simp only []
    rw [Proofs.RL2B.fromRagged_lens, hlen]
    exact h1
  · rw [h3]
    unfold Spec.colCounts
    simp only []
    apply List.map_congr_left
    intro j _
    rw [List.countP_map, List.countP_eq_length_filter]
    rfl

/-- column counts: number of rows with more than j cells -/
theorem C17_col_counts (ne : α → α → Bool) (rows : List (List α)) (hpos : ∀ r ∈ rows, r ≠ []) :
    ((fromRagged ne rows).colCounts).map RLA.decode = some (Spec.colCounts rows) := by
  obtain ⟨r, h1, _, h3⟩ := C17_col_counts_valid ne rows hpos
  rw [h1, Option.map_some, h3]

/-- column sums of the ragged variant, with validity of the result -/
theorem C17_col_sum_ragged_valid (rows : List (List Int)) (hpos : ∀ r ∈ rows, r ≠ []) (hne : rows ≠ []) :
    ∃ r, (fromRagged (fun x y => x != y) rows).colSum = some r ∧ r.Valid ∧ r.decode = Spec.colSum rows :=
  Proofs.RL2B.colSum_ragged rows hpos hne

/-- column sums of the ragged variant: Σ of row[j] over the rows that reach column j -/
theorem C17_col_sum_ragged (rows : List (List Int)) (hpos : ∀ r ∈ rows, r ≠ []) (hne : rows ≠ []) :
    ((fromRagged (fun x y => x != y) rows).colSum).map RLA.decode = some (Spec.colSum rows) := by
  obtain ⟨r, h1, _, h3⟩ := C17_col_sum_ragged_valid rows hpos hne
  rw [h1, Option.map_some, h3]

/-- column sums of the matrix variant, with validity of the result -/
theorem C17_col_sum_matrix_valid (m : List (List Int)) (c : Nat) (hc : 1 ≤ c) (hm : ∀ r ∈ m, r.length = c)
    (hne : m ≠ []) :
    ∃ r, (fromMatrix (fun x y => x != y) m c).colSum = some r ∧ r.Valid ∧ r.decode = Spec.colSum m :=
  Proofs.RL2B.colSum_matrix m c hc hm hne

/-- column sums of the matrix variant -/
theorem C17_col_sum_matrix (m : List (List Int)) (c : Nat) (hc : 1 ≤ c) (hm : ∀ r ∈ m, r.length = c) (hne : m ≠ []) :
    ((fromMatrix (fun x y => x != y) m c).colSum).map RLA.decode = some (Spec.colSum m) := by
  obtain ⟨r, h1, _, h3⟩ := C17_col_sum_matrix_valid m c hc hm hne
  rw [h1, Option.map_some, h3]

/-! ## Concrete instances (non-vacuity) -/

section Examples
open Model.RLA Proofs.RL2B

/-- the ragged example `[[1,1,2],[2],[2,2,1,1]]` -/
def exRows : List (List Int) := [[1, 1, 2], [2], [2, 2, 1, 1]]
def exNe (x y : Int) : Bool := x != y

theorem ex_encoded : fromRagged exNe exRows
    = ⟨[[0, 2, 3], [0, 1], [0, 2, 4]], [[1, 2], [2], [2, 1]], none⟩ := by decide

theorem ex_sort : stableArgsort [0, 2, 3, 0, 1, 0, 2, 4] = [0, 3, 5, 4, 1, 6, 2, 7] := by
  simp [stableArgsort, List.mergeSort, List.zipIdx]

/-- column sums: the computed run-length array and its dense meaning `[5, 3, 3, 1]` -/
example : (fromRagged exNe exRows).colSum = some ⟨[0, 1, 2, 3, 4], [5, 3, 3, 1]⟩ ∧
    (RLA.mk [0, 1, 2, 3, 4] [5, 3, 3, 1]).decode = [5, 3, 3, 1] ∧ Spec.colSum exRows = [5, 3, 3, 1] := by
  refine ⟨?_, by decide, by decide⟩
  rw [ex_encoded, colSum_eq]
  unfold colSumCore
  simp only []
  rw [show [[0, 2, 3], [0, 1], [0, 2, 4]].flatten = [0, 2, 3, 0, 1, 0, 2, 4] from rfl, ex_sort]
  decide

example : ((fromRagged (fun x y => x != y) exRows).colSum).map RLA.decode = some [5, 3, 3, 1] := by
  rw [C17_col_sum_ragged exRows (by decide) (by decide)]; decide

/-- column counts `[3, 2, 2, 1]` -/
example : ((fromRagged exNe exRows).colCounts).map RLA.decode = some [3, 2, 2, 1] := by
  rw [C17_col_counts exNe exRows (by decide)]; decide

example : Spec.colCounts exRows = [3, 2, 2, 1] := by decide

/-- ravel -/
example : (fromRagged exNe exRows).ravel = some ⟨[0, 2, 3, 4, 6, 8], [1, 2, 2, 2, 1]⟩ ∧
    (RLA.mk [0, 2, 3, 4, 6, 8] [1, 2, 2, 2, 1]).decode = exRows.flatten := by
  constructor <;> decide

example : ((fromRagged exNe exRows).ravel).map RLA.decode = some [1, 1, 2, 2, 2, 2, 1, 1] := by
  rw [C17_ravel exNe (by intro x y h; simpa [exNe] using h) exRows (by decide)]; decide

/-- concat of two ragged arrays -/
example : (RL2.concat [fromRagged exNe [[1, 1, 2]], fromRagged exNe [[2], [2, 2, 1, 1]]]).toRows
    = some exRows := by decide

/-- the matrix example `[[1,1,2],[2,2,2]]`: last column forced to start a run -/
def exMat : List (List Int) := [[1, 1, 2], [2, 2, 2]]

theorem exMat_encoded : fromMatrix exNe exMat 3 = ⟨[[0, 2], [0, 2]], [[1, 2], [2, 2]], some 3⟩ := by
  decide

theorem exMat_sort : stableArgsort [0, 2, 0, 2] = [0, 2, 1, 3] := by
  simp [stableArgsort, List.mergeSort, List.zipIdx]

example : (fromMatrix exNe exMat 3).colSum = some ⟨[0, 2, 3], [3, 4]⟩ ∧
    (RLA.mk [0, 2, 3] [3, 4]).decode = [3, 3, 4] ∧ Spec.colSum exMat = [3, 3, 4] := by
  refine ⟨?_, by decide, by decide⟩
  rw [exMat_encoded, colSum_eq]
  unfold colSumCore
  simp only []
  rw [show [[0, 2], [0, 2]].flatten = [0, 2, 0, 2] from rfl, exMat_sort]
  decide

example : ((fromMatrix (fun x y => x != y) exMat 3).colSum).map RLA.decode = some [3, 3, 4] := by
  rw [C17_col_sum_matrix exMat 3 (by decide) (by decide) (by decide)]; decide

end Examples

end Props.C17
