import NpsVerif.Props.C08A
import NpsVerif.Props.C08B
import NpsVerif.Props.C08C
/-! Property C08: theorems in `Props/C08A.lean` (concatenate, *_like, nonzero, where, subset, mask
indexing) `Props/C08B.lean` (ragged_slice, padded matrix) and `Props/C08C.lean` (ragged_slice on 1-D / 2-D ndarrays). -/
