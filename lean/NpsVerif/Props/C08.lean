import NpsVerif.Model.Structural
import NpsVerif.Spec.Rows
namespace Props.C08
open Model
/-- sanity instance; the universally quantified theorems are added as they are proved -/
theorem padded_example : paddedMatrix (RA.ofRows [[1, 2], [], [3, 4, 5], []]) 0 false = some [[0, 1, 2], [0, 0, 0], [3, 4, 5], [0, 0, 0]] := by decide
end Props.C08
