import NpsVerif.Props.C08A
import NpsVerif.Props.C08B
/-! Property C08: theorems in `Props/C08A.lean` (concatenate, *_like, nonzero, where, subset, mask
indexing) and `Props/C08B.lean` (ragged_slice, padded matrix). -/
