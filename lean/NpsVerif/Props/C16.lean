import NpsVerif.Model.RunLength
import NpsVerif.Props.C14Assumed
import NpsVerif.Proofs.RLArithBinop
import NpsVerif.Proofs.RLArithClean
import NpsVerif.Proofs.RLArithOps
namespace Props.C16
open Model Model.RLA
variable {α β γ : Type}

/-- sanity instance -/
theorem decode_example : (RLA.mk [0, 2, 5, 6] [7, 8, 9]).decode = [7, 7, 8, 8, 8, 9] := by decide

/-- the clean-up tail (`remove_empty_intervals`, `join_runs`, constructor) keeps the dense list -/
theorem finish_spec (eq : γ → γ → Bool) (heq : ∀ x y, eq x y = true → x = y) (ev : List Nat) (vs : List γ)
    (D : List γ) (hn : 0 < D.length) (hs : ev.Pairwise (· ≤ ·)) (hlen : ev.length = vs.length + 1)
    (hle : ∀ e ∈ ev, e ≤ D.length) (hd : dec ev vs = D) :
    ∃ r, finish eq ev vs = some r ∧ r.Valid ∧ r.decode = D := by
  obtain ⟨h1, h2, h3⟩ := Props.C14.C14_removeEmpty_decode ev vs hlen hs
  rw [decode_eq_dec, decode_eq_dec, hd] at h1
  have h3' := (strictInc_iff _).1 h3
  have hsub : ∀ e ∈ (removeEmpty ev vs).1, e ≤ D.length := by
    intro e he
    exact hle e ((deleteIdx_sublist ev _).subset he)
  have hhead := head_zero_of_dec_length _ _ D.length hn h3' h2 hsub (by rw [h1])
  have hvalid : (RLA.mk (removeEmpty ev vs).1 (removeEmpty ev vs).2).Valid :=
    (valid_iff _).2 ⟨hhead, h2, h3'⟩
  obtain ⟨h4, h5⟩ := Props.C14.C14_joinRuns_decode eq heq _ hvalid
  simp only [] at h4 h5
  refine ⟨_, ?_, h5, ?_⟩
  · unfold finish mk?
    exact if_pos h5
  · rw [h4, decode_eq_dec, h1]

/-- HEADLINE: binary ufunc of two run-length arrays with unrelated boundaries (f has no laws) -/
theorem C16_binary (f : α → β → γ) (eq : γ → γ → Bool) (heq : ∀ x y, eq x y = true → x = y)
    (x : RLA α) (y : RLA β) (hx : x.Valid) (hy : y.Valid) (hl : x.len = y.len) (hpos : 0 < x.len) :
    ∃ r, binop f eq x y = some r ∧ r.Valid ∧ r.decode = List.zipWith f x.decode y.decode := by
  obtain ⟨Tx, hxe, hTx⟩ := valid_split x hx hpos
  obtain ⟨Ty, hye, hTy⟩ := valid_split y hy (by omega)
  rw [← hl] at hye hTy
  have hDn : (List.zipWith f x.decode y.decode).length = x.len := by
    rw [List.length_zipWith, decode_length x hx, decode_length y hy, ← hl]; simp
  have hB := binEvents_eq x y x.len Tx Ty hxe hye
  have hV := binValues_eq f x y hx hy x.len rfl hl.symm hpos Tx Ty hxe hye hTx hTy
  rw [← hDn] at hB
  have hxmem : ∀ p, 0 < p → p < x.len → p ∉ (0 :: Tx ++ Ty) → p ∉ x.events ∧ p ∉ y.events := by
    intro p h0 hp hnm
    rw [hxe, hye]
    simp only [List.cons_append, List.mem_cons, List.mem_append, not_or, List.mem_nil_iff,
      or_false] at hnm ⊢
    exact ⟨⟨hnm.1, hnm.2.1, by omega⟩, hnm.1, hnm.2.2, by omega⟩
  obtain ⟨E, hev, hvs, hperm, hsorted, hdec⟩ := merge_decode (List.zipWith f x.decode y.decode)
    (0 :: Tx ++ Ty) (by simp)
    (by
      intro e he
      rw [hDn]
      rcases List.mem_cons.1 he with rfl | he
      · exact hpos
      · rcases List.mem_append.1 he with he | he
        · exact (hTx e he).2
        · exact (hTy e he).2)
    (by
      intro p h0 hp hnm
      rw [hDn] at hp
      obtain ⟨h1, h2⟩ := hxmem p h0 hp hnm
      rw [List.getElem?_zipWith, List.getElem?_zipWith, decode_const x hx p h0 hp h1,
        decode_const y hy p h0 (by omega) h2])
  rw [binop_eq, if_neg (by simpa using hl), hB, hV, hev, hvs]
  apply finish_spec eq heq _ _ _ (by omega) hsorted
  · rw [length_filterMap_of_some]
    · simp
    · intro e he
      have : e < (List.zipWith f x.decode y.decode).length := by
        rw [hDn]
        rcases List.mem_cons.1 ((hperm.mem_iff).1 he) with rfl | he
        · exact hpos
        · rcases List.mem_append.1 he with he | he
          · exact (hTx e he).2
          · exact (hTy e he).2
      rw [List.getElem?_eq_getElem this]; rfl
  · intro e he
    rcases List.mem_append.1 he with he | he
    · rw [hDn]
      rcases List.mem_cons.1 ((hperm.mem_iff).1 he) with rfl | he
      · omega
      · rcases List.mem_append.1 he with he | he
        · exact Nat.le_of_lt (hTx e he).2
        · exact Nat.le_of_lt (hTy e he).2
    · rw [List.mem_singleton.1 he]; exact Nat.le_refl _
  · exact hdec

/-- unequal lengths are refused -/
theorem C16_binary_refuses (f : α → β → γ) (eq : γ → γ → Bool) (x : RLA α) (y : RLA β) (hl : x.len ≠ y.len) :
    binop f eq x y = none := by
  rw [binop_eq, if_pos hl]

theorem finish_values (eq : γ → γ → Bool) (ev : List Nat) (vs : List γ) (r : RLA γ)
    (h : finish eq ev vs = some r) :
    r.values = (joinRuns eq (removeEmpty ev vs).1 (removeEmpty ev vs).2).2 := by
  unfold finish mk? at h
  split at h
  · rw [← Option.some.inj h]
  · exact absurd h (by simp)

/-- the result of a binary ufunc is join-canonical w.r.t. the value test used.
NOTE: the originally proposed statement had no hypothesis on `eq` and is FALSE
(`C16_binary_canonical_counterexample` below); `hcongr` (right congruence of `eq`) is the added
hypothesis.  It holds for every genuine equality test and for IEEE `==` (NaN, ±0 included). -/
theorem C16_binary_canonical (f : α → β → γ) (eq : γ → γ → Bool)
    (hcongr : ∀ a b c, eq b a = true → eq c b = eq c a)
    (x : RLA α) (y : RLA β) (r : RLA γ)
    (h : binop f eq x y = some r) :
    ∀ i, ∀ u v, r.values[i]? = some u → r.values[i+1]? = some v → eq v u = false := by
  intro i u v hu hv
  rw [binop_eq] at h
  split at h
  · exact absurd h (by simp)
  · rw [finish_values eq _ _ r h] at hu hv
    exact adjOK_getElem eq _ (joinRuns_canonical eq hcongr _ _) i u v hu hv

/-- corollary: `eq` a genuine equality test (the hypothesis of `C16_binary`) -/
theorem C16_binary_canonical_of_eq (f : α → β → γ) (eq : γ → γ → Bool)
    (heq : ∀ x y, eq x y = true → x = y) (x : RLA α) (y : RLA β) (r : RLA γ)
    (h : binop f eq x y = some r) :
    ∀ i, ∀ u v, r.values[i]? = some u → r.values[i+1]? = some v → eq v u = false :=
  C16_binary_canonical f eq (fun a b c hab => by rw [heq b a hab]) x y r h

/-- a non-transitive "closeness" test, for the counterexample -/
def closeNat (a b : Nat) : Bool := decide (a - b ≤ 1 ∧ b - a ≤ 1)

theorem stableArgsort_0123 : stableArgsort [0, 1, 2, 3] = [0, 1, 2, 3] := by
  simp [stableArgsort, List.mergeSort, List.zipIdx]

/-- COUNTEREXAMPLE to the canonical-form statement without a hypothesis on `eq`: with
`eq a b := |a - b| ≤ 1`, `join_runs` drops the 2 (close to 3), keeps the 4 (not close to 2), and the
result has the neighbours 3, 4 although `eq 4 3 = true`. -/
theorem C16_binary_canonical_counterexample :
    binop (fun a (_ : Nat) => a) closeNat ⟨[0, 1, 2, 3], [3, 2, 4]⟩ ⟨[0, 3], [0]⟩
      = some ⟨[0, 2, 3], [3, 4]⟩ ∧
    (RLA.mk [0, 2, 3] [3, 4]).values[0]? = some 3 ∧ (RLA.mk [0, 2, 3] [3, 4]).values[0 + 1]? = some 4 ∧
    closeNat 4 3 = true := by
  refine ⟨?_, by decide, by decide, by decide⟩
  rw [binop_eq]
  have hE : binEvents (RLA.mk [0, 1, 2, 3] [3, 2, 4]) (RLA.mk [0, 3] [0]) = [0, 1, 2, 3] := by decide
  have hV : binValues (fun a (_ : Nat) => a) (RLA.mk [0, 1, 2, 3] [3, 2, 4]) (RLA.mk [0, 3] [0])
      = [3, 2, 4] := by decide
  rw [hE, hV, stableArgsort_0123]; decide

/-- unary ufunc / scalar operand: decode commutes with map, boundaries unchanged, validity kept -/
theorem C16_map (g : α → β) (r : RLA α) (h : r.Valid) :
    ∃ r', r.mapValues g = some r' ∧ r'.Valid ∧ r'.decode = r.decode.map g ∧ r'.events = r.events := by
  have hv := (valid_iff r).1 h
  have hvalid : (RLA.mk r.events (r.values.map g)).Valid :=
    (valid_iff _).2 ⟨hv.1, by simpa using hv.2.1, hv.2.2⟩
  refine ⟨⟨r.events, r.values.map g⟩, ?_, hvalid, ?_, rfl⟩
  · unfold mapValues mk?
    exact if_pos hvalid
  · rw [decode_eq_dec, dec_map, ← decode_eq_dec]

set_option linter.unusedVariables false in
/-- Σ length·value = Σ of the decoded cells (validity is not even needed) -/
theorem C16_sum (r : RLA Int) (h : r.Valid) : r.sum = r.decode.sum := by
  have hd : r.decode = dec r.events r.values := decode_eq_dec r.events r.values
  rw [hd, ← sum_dec]
  rfl

/-- `np.histogram`: the histogram of the run values weighted by the run lengths puts into every bin
(any predicate `p` on values) exactly the number of decoded cells falling into it -/
theorem C16_histogram (p : α → Bool) (r : RLA α) : r.weightedCount p = r.decode.countP p := by
  have hd : r.decode = dec r.events r.values := decode_eq_dec r.events r.values
  rw [hd, ← weightedCount_dec]
  rfl

/-- every run is non-empty, so reductions over run values see exactly the values of the cells -/
theorem C16_values_mem (r : RLA α) (h : r.Valid) (v : α) : v ∈ r.values ↔ v ∈ r.decode := by
  obtain ⟨rest, he⟩ := valid_cons r h
  have hv := (valid_iff r).1 h
  have hd : r.decode = dec r.events r.values := decode_eq_dec r.events r.values
  rw [hd]
  rw [he] at hv ⊢
  exact mem_dec v 0 rest r.values hv.2.2 hv.2.1

/-- `any()` / `all()` are computed on the run values: same answer as on the decoded cells -/
theorem C16_any (r : RLA α) (h : r.Valid) (p : α → Bool) : r.values.any p = r.decode.any p := by
  rw [Bool.eq_iff_iff]
  simp only [List.any_eq_true]
  exact ⟨fun ⟨x, hx, hp⟩ => ⟨x, (C16_values_mem r h x).1 hx, hp⟩, fun ⟨x, hx, hp⟩ => ⟨x, (C16_values_mem r h x).2 hx, hp⟩⟩

theorem C16_all (r : RLA α) (h : r.Valid) (p : α → Bool) : r.values.all p = r.decode.all p := by
  rw [Bool.eq_iff_iff]
  simp only [List.all_eq_true]
  exact ⟨fun hv x hx => hv x ((C16_values_mem r h x).2 hx), fun hv x hx => hv x ((C16_values_mem r h x).1 hx)⟩

/-- `max()` is the maximum of the run values: an upper bound of the decoded cells that is one of them -/
theorem C16_max (r : RLA Int) (h : r.Valid) (m : Int) (hm : m ∈ r.values) (hub : ∀ v ∈ r.values, v ≤ m) :
    m ∈ r.decode ∧ ∀ x ∈ r.decode, x ≤ m :=
  ⟨(C16_values_mem r h m).1 hm, fun x hx => hub x ((C16_values_mem r h x).2 hx)⟩

set_option linter.unusedVariables false in
/-- concatenation (`hne` is not needed: the empty concatenation is `⟨[0], []⟩`) -/
theorem C16_concat (rs : List (RLA α)) (h : ∀ r ∈ rs, r.Valid ∧ 0 < r.len) (hne : rs ≠ []) :
    ∃ r', RLA.concat rs = some r' ∧ r'.Valid ∧ r'.decode = (rs.map decode).flatten := by
  obtain ⟨c1, c2, c3, c4, _⟩ := concat_aux rs h 0
  have hc : RLA.concat rs = mk? (evFrom 0 rs) ((rs.map (·.values)).flatten) := by
    unfold RLA.concat evFrom Np.exclScan
    simp only [Nat.zero_add]
  have hvalid : (RLA.mk (evFrom 0 rs) ((rs.map (·.values)).flatten)).Valid :=
    (valid_iff _).2 ⟨c1, c3, c2⟩
  refine ⟨_, ?_, hvalid, ?_⟩
  · rw [hc]; unfold mk?; exact if_pos hvalid
  · rw [decode_eq_dec, c4]

/-- interleaved boundaries (the stable sort really permutes) -/
example : binop (fun a b => a + b) (fun a b => a == b) (RLA.mk [0, 4, 6] [1, 2]) (RLA.mk [0, 2, 6] [10, 20])
      = some ⟨[0, 2, 4, 6], [11, 21, 22]⟩ ∧
    (RLA.mk [0, 2, 4, 6] [11, 21, 22]).decode
      = List.zipWith (fun a b => a + b) (RLA.mk [0, 4, 6] [1, 2]).decode (RLA.mk [0, 2, 6] [10, 20]).decode := by
  refine ⟨?_, by decide⟩
  rw [binop_eq]
  have hE : binEvents (RLA.mk [0, 4, 6] [1, 2]) (RLA.mk [0, 2, 6] [10, 20]) = [0, 4, 2, 6] := by decide
  have hV : binValues (fun a b => a + b) (RLA.mk [0, 4, 6] [1, 2]) (RLA.mk [0, 2, 6] [10, 20]) = [11, 22, 21] := by decide
  have hS : stableArgsort [0, 4, 2, 6] = [0, 2, 1, 3] := by simp [stableArgsort, List.mergeSort, List.zipIdx]
  rw [hE, hV, hS]; decide

/-- coincident boundaries (the first copy of the duplicate boundary is dropped) -/
example : binop (fun a b => a + b) (fun a b => a == b) (RLA.mk [0, 2, 4] [1, 2]) (RLA.mk [0, 2, 4] [10, 20])
      = some ⟨[0, 2, 4], [11, 22]⟩ ∧
    (RLA.mk [0, 2, 4] [11, 22]).decode
      = List.zipWith (fun a b => a + b) (RLA.mk [0, 2, 4] [1, 2]).decode (RLA.mk [0, 2, 4] [10, 20]).decode := by
  refine ⟨?_, by decide⟩
  rw [binop_eq]
  have hE : binEvents (RLA.mk [0, 2, 4] [1, 2]) (RLA.mk [0, 2, 4] [10, 20]) = [0, 2, 2, 4] := by decide
  have hV : binValues (fun a b => a + b) (RLA.mk [0, 2, 4] [1, 2]) (RLA.mk [0, 2, 4] [10, 20]) = [11, 22, 22] := by decide
  have hS : stableArgsort [0, 2, 2, 4] = [0, 1, 2, 3] := by simp [stableArgsort, List.mergeSort, List.zipIdx]
  rw [hE, hV, hS]; decide

/-- nested runs -/
example : binop (fun a b => a + b) (fun a b => a == b) (RLA.mk [0, 1, 5, 6] [1, 2, 3]) (RLA.mk [0, 2, 3, 6] [10, 20, 30])
      = some ⟨[0, 1, 2, 3, 5, 6], [11, 12, 22, 32, 33]⟩ ∧
    (RLA.mk [0, 1, 2, 3, 5, 6] [11, 12, 22, 32, 33]).decode
      = List.zipWith (fun a b => a + b) (RLA.mk [0, 1, 5, 6] [1, 2, 3]).decode (RLA.mk [0, 2, 3, 6] [10, 20, 30]).decode := by
  refine ⟨?_, by decide⟩
  rw [binop_eq]
  have hE : binEvents (RLA.mk [0, 1, 5, 6] [1, 2, 3]) (RLA.mk [0, 2, 3, 6] [10, 20, 30]) = [0, 1, 5, 2, 3, 6] := by decide
  have hV : binValues (fun a b => a + b) (RLA.mk [0, 1, 5, 6] [1, 2, 3]) (RLA.mk [0, 2, 3, 6] [10, 20, 30]) = [11, 12, 33, 22, 32] := by decide
  have hS : stableArgsort [0, 1, 5, 2, 3, 6] = [0, 1, 3, 4, 2, 5] := by simp [stableArgsort, List.mergeSort, List.zipIdx]
  rw [hE, hV, hS]; decide

/-- coincident boundaries and equal results: runs are joined -/
example : binop (fun a b => a + b) (fun a b => a == b) (RLA.mk [0, 2, 4] [1, 2]) (RLA.mk [0, 2, 4] [20, 19])
      = some ⟨[0, 4], [21]⟩ ∧
    (RLA.mk [0, 4] [21]).decode
      = List.zipWith (fun a b => a + b) (RLA.mk [0, 2, 4] [1, 2]).decode (RLA.mk [0, 2, 4] [20, 19]).decode := by
  refine ⟨?_, by decide⟩
  rw [binop_eq]
  have hE : binEvents (RLA.mk [0, 2, 4] [1, 2]) (RLA.mk [0, 2, 4] [20, 19]) = [0, 2, 2, 4] := by decide
  have hV : binValues (fun a b => a + b) (RLA.mk [0, 2, 4] [1, 2]) (RLA.mk [0, 2, 4] [20, 19]) = [21, 21, 21] := by decide
  have hS : stableArgsort [0, 2, 2, 4] = [0, 1, 2, 3] := by simp [stableArgsort, List.mergeSort, List.zipIdx]
  rw [hE, hV, hS]; decide

/-- one operand a single run -/
example : binop (fun a b => a + b) (fun a b => a == b) (RLA.mk [0, 6] [1]) (RLA.mk [0, 2, 4, 6] [10, 20, 30])
      = some ⟨[0, 2, 4, 6], [11, 21, 31]⟩ ∧
    (RLA.mk [0, 2, 4, 6] [11, 21, 31]).decode
      = List.zipWith (fun a b => a + b) (RLA.mk [0, 6] [1]).decode (RLA.mk [0, 2, 4, 6] [10, 20, 30]).decode := by
  refine ⟨?_, by decide⟩
  rw [binop_eq]
  have hE : binEvents (RLA.mk [0, 6] [1]) (RLA.mk [0, 2, 4, 6] [10, 20, 30]) = [0, 2, 4, 6] := by decide
  have hV : binValues (fun a b => a + b) (RLA.mk [0, 6] [1]) (RLA.mk [0, 2, 4, 6] [10, 20, 30]) = [11, 21, 31] := by decide
  have hS : stableArgsort [0, 2, 4, 6] = [0, 1, 2, 3] := by simp [stableArgsort, List.mergeSort, List.zipIdx]
  rw [hE, hV, hS]; decide

example : binop (fun a b => a + b) (fun a b => a == b) (RLA.mk [0, 2] [1]) (RLA.mk [0, 3] [1]) = none := by decide
example : (RLA.mk [0, 2, 5] [3, 4]).mapValues (· * 2) = some ⟨[0, 2, 5], [6, 8]⟩ := by decide
example : (RLA.mk [0, 2, 5] [3, -4]).sum = -6 := by decide
example : RLA.concat [⟨[0, 2, 3], [1, 2]⟩, ⟨[0, 1], [5]⟩, (⟨[0, 2, 4], [7, 8]⟩ : RLA Nat)]
    = some ⟨[0, 2, 3, 4, 6, 8], [1, 2, 5, 7, 8]⟩ := by decide

end Props.C16
