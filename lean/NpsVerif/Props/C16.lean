import NpsVerif.Model.RunLength
namespace Props.C16
open Model Model.RLA
/-- sanity instance; the universally quantified theorems are added as they are proved -/
theorem decode_example : (RLA.mk [0, 2, 5, 6] [7, 8, 9]).decode = [7, 7, 8, 8, 8, 9] := by decide
end Props.C16
