import NpsVerif.Props.C04
/-! `C04_raw_broadcast`, which the C03 proof uses for column-vector values, is proved in `Props/C04.lean`. -/
