import NpsVerif.Model.Ufunc
import NpsVerif.Proofs.XorBroadcast
import NpsVerif.Proofs.UfuncRows
/-!
# Property C04 — element-wise ufuncs on a RaggedArray and column broadcasting

All theorems quantify over every vector of row lengths (any placement of empty rows, zero rows),
every element type with XOR laws (`XorLike`), every content and every binary operation `f`.
Helper lemmas live in `Proofs/XorBroadcast.lean` (the XOR builder) and `Proofs/UfuncRows.lean`.
-/
open Model

namespace Props.C04
open Proofs.XorBroadcast Proofs.UfuncRows
variable {α β γ : Type}

/-- the XOR-scatter + prefix-XOR broadcast repeats entry i over row i — for EVERY placement of empty
rows (several rows then share a start / end position; the reversed first scatter makes the first row
with a given end win, the second makes the last row with a given start win) -/
theorem C04_raw_broadcast [XorLike α] (ls : List Nat) (vals : List α) (h : vals.length = ls.length) :
    rawBroadcast (Shape.ofLens ls) vals = (List.zipWith (fun l v => List.replicate l v) ls vals).flatten :=
  C04_raw_broadcast' ls vals h

theorem C04_unary (g : α → β) (rows : List (List α)) :
    (ufunc1 g (RA.ofRows rows)).rows = rows.map (·.map g) ∧
    (ufunc1 g (RA.ofRows rows)).shape = (RA.ofRows rows).shape := by
  refine ⟨?_, rfl⟩
  simp only [ufunc1, RA.ofRows, List.map_flatten]
  exact rows_mk _ _ (by simp [Function.comp_def])

theorem C04_scalar_right [XorLike β] (f : α → β → γ) (rows : List (List α)) (s : β) :
    (ufuncRight f (RA.ofRows rows) (.scalar s)).map RA.rows = some (rows.map (·.map (f · s))) := by
  simp only [ufuncRight, RA.ofRows, List.map_flatten, Option.map_some]
  exact congrArg some (rows_mk _ _ (by simp [Function.comp_def]))

theorem C04_scalar_left [XorLike α] (f : α → β → γ) (rows : List (List β)) (s : α) :
    (ufuncLeft f (RA.ofRows rows) (.scalar s)).map RA.rows = some (rows.map (·.map (f s ·))) := by
  simp only [ufuncLeft, RA.ofRows, List.map_flatten, Option.map_some]
  exact congrArg some (rows_mk _ _ (by simp [Function.comp_def]))

/-- (n_rows, 1) column on the right: row i is combined with entry i -/
theorem C04_column_right [XorLike β] (f : α → β → γ) (rows : List (List α)) (col : List β)
    (h : col.length = rows.length) :
    (ufuncRight f (RA.ofRows rows) (.column col)).map RA.rows =
      some (List.zipWith (fun r c => r.map (f · c)) rows col) := by
  simp only [ufuncRight, RA.ofRows]
  rw [column_right_flat f _ _ col rows.flatten (by simpa using h) (by simp [List.length_flatten]),
    zipWith_flatten_column_right]
  exact congrArg some (rows_mk _ _ (lengths_zipWith_map f rows col h))

/-- column on the left (reflected call): operand order respected -/
theorem C04_column_left [XorLike α] (f : α → β → γ) (rows : List (List β)) (col : List α)
    (h : col.length = rows.length) :
    (ufuncLeft f (RA.ofRows rows) (.column col)).map RA.rows =
      some (List.zipWith (fun r c => r.map (f c ·)) rows col) := by
  simp only [ufuncLeft, RA.ofRows]
  rw [column_left_flat f _ _ col rows.flatten (by simpa using h) (by simp [List.length_flatten]),
    zipWith_flatten_column_left]
  exact congrArg some (rows_mk _ _ (lengths_zipWith_map (fun b a => f a b) rows col h))

/-- a column of the wrong height is refused (a single entry is numpy's scalar-like broadcast) -/
theorem C04_column_refuses [XorLike β] (f : α → β → γ) (rows : List (List α)) (col : List β)
    (h : col.length ≠ rows.length) (h1 : col.length ≠ 1) :
    ufuncRight f (RA.ofRows rows) (.column col) = none := by
  simp only [ufuncRight, RA.ofRows]
  rw [broadcastValues_refuses _ col (by simpa using h) h1]
  rfl

/-- two ragged arrays with identical row lengths: cell by cell -/
theorem C04_ragged [XorLike β] (f : α → β → γ) (rows : List (List α)) (others : List (List β))
    (h : others.map List.length = rows.map List.length) :
    (ufuncRight f (RA.ofRows rows) (.ragged (RA.ofRows others))).map RA.rows =
      some (List.zipWith (fun r o => List.zipWith f r o) rows others) := by
  simp only [ufuncRight, RA.ofRows, h, ne_eq, not_true_eq_false, if_false]
  rw [applyFlat_eq_length _ _ _ (by rw [List.length_flatten, List.length_flatten, h]),
    zipWith_flatten_rows f rows others h]
  exact congrArg some (rows_mk _ _ (lengths_zipWith_zipWith f rows others h))

/-- different row lengths are refused, never combined -/
theorem C04_ragged_refuses [XorLike β] (f : α → β → γ) (rows : List (List α)) (others : List (List β))
    (h : others.map List.length ≠ rows.map List.length) :
    ufuncRight f (RA.ofRows rows) (.ragged (RA.ofRows others)) = none := by
  have hne : (RA.ofRows others).shape ≠ (RA.ofRows rows).shape := fun e => h (ofLens_injective e)
  simp only [ufuncRight]
  rw [if_pos hne]

/-- the result always has the operand's shape -/
theorem C04_shape [XorLike β] (f : α → β → γ) (a : RA α) (x : Operand β) (r : RA γ)
    (h : ufuncRight f a x = some r) : r.shape = a.shape := by
  cases x with
  | scalar s =>
    simp only [ufuncRight, Option.some.injEq] at h
    rw [← h]
  | column col =>
    simp only [ufuncRight] at h
    obtain ⟨b, _, hb⟩ := Option.bind_eq_some_iff.mp h
    obtain ⟨d, _, hd⟩ := Option.map_eq_some_iff.mp hb
    rw [← hd]
  | ragged o =>
    simp only [ufuncRight] at h
    split at h
    · exact absurd h (by simp)
    · obtain ⟨d, _, hd⟩ := Option.map_eq_some_iff.mp h
      rw [← hd]

/-! ## non-vacuity: concrete instances over `Nat` (XOR = `Nat.xor`) -/

/- empty rows at the start, in the middle (consecutive) and at the end -/
example : rawBroadcast (Shape.ofLens [0, 2, 0, 0, 1, 0]) [10, 11, 12, 13, 14, 15] = [11, 11, 14] := by decide
/- all rows empty -/
example : rawBroadcast (Shape.ofLens [0, 0]) [7, 9] = ([] : List Nat) := by decide
/- a single row -/
example : rawBroadcast (Shape.ofLens [3]) [5] = [5, 5, 5] := by decide
/- zero rows -/
example : rawBroadcast (Shape.ofLens []) ([] : List Nat) = [] := by decide
/- the intermediate builder really has colliding writes: rows 2, 3, 4 all start at 2, rows 1, 2, 3 all end at 2 -/
example : (Shape.ofLens [0, 2, 0, 0, 1, 0]).starts = [0, 0, 2, 2, 2, 3] ∧
    (Shape.ofLens [0, 2, 0, 0, 1, 0]).ends = [0, 2, 2, 2, 3, 3] := by decide
/- a column on the right (subtraction is not commutative: operand order is visible) -/
example : (ufuncRight (fun a b => a - b) (RA.ofRows [[], [10, 20], [], [], [30], []])
      (.column [1, 2, 3, 4, 5, 6])).map RA.rows = some [[], [8, 18], [], [], [25], []] := by decide
/- a column on the left -/
example : (ufuncLeft (fun a b => a - b) (RA.ofRows [[], [1, 2], [], [], [3], []])
      (.column [10, 20, 30, 40, 50, 60])).map RA.rows = some [[], [19, 18], [], [], [47], []] := by decide
/- the size-1 shortcut: one row, one column entry -/
example : (ufuncRight (fun a b => a + b) (RA.ofRows [[1, 2, 3]]) (.column [10])).map RA.rows
    = some [[11, 12, 13]] := by decide
/- a column on zero rows / on rows that are all empty -/
example : (ufuncRight (fun a b => a + b) (RA.ofRows ([] : List (List Nat))) (.column [])).map RA.rows
    = some [] := by decide
example : (ufuncRight (fun a b => a + b) (RA.ofRows [([] : List Nat), []]) (.column [1, 2])).map RA.rows
    = some [[], []] := by decide
/- a column of the wrong height is refused -/
example : ufuncRight (fun a b => a + b) (RA.ofRows [[1], [2, 3]]) (.column [1, 2, 3]) = none := by decide
/- ragged operands: accepted with equal row lengths, refused otherwise -/
example : (ufuncRight (fun a b => a + b) (RA.ofRows [[1], [], [2, 3]])
      (.ragged (RA.ofRows [[10], [], [20, 30]]))).map RA.rows = some [[11], [], [22, 33]] := by decide
example : ufuncRight (fun a b => a + b) (RA.ofRows [[1], [], [2, 3]])
      (.ragged (RA.ofRows [[10], [20], [30]])) = none := by decide
/- scalar and unary -/
example : (ufuncRight (fun a b => a - b) (RA.ofRows [[], [5, 6], []]) (.scalar 1)).map RA.rows
    = some [[], [4, 5], []] := by decide
example : (ufunc1 (· + 1) (RA.ofRows [[], [5, 6], []])).rows = [[], [6, 7], []] := by decide

end Props.C04
