import NpsVerif.Model.Ufunc
namespace Props.C04
open Model
/-- sanity instance; the universally quantified theorems are added as they are proved -/
theorem rawBroadcast_example : rawBroadcast (Shape.ofLens [0, 2, 0, 0, 1, 0]) [10, 11, 12, 13, 14, 15] = [11, 11, 14] := by decide
end Props.C04
