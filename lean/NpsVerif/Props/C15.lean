import NpsVerif.Model.RunLength
import NpsVerif.Gen.Bridge.rl_slice_bounds
import NpsVerif.Props.C14Assumed
import NpsVerif.Proofs.RLIndexSlice
import NpsVerif.Proofs.RLIndexMask
/-!
# C15: indexing of run-length arrays (`RunLengthArray.__getitem__`)

`decode` (the dense list) is the specification.  The proofs are in `NpsVerif/Proofs/RLIndex*.lean`;
the generated kernel `Gen.Cur.rl_slice_bounds` is only reached through its bridge lemma.
`C15_step_subset` / `C15_slice` use the C14 statements `C14_removeEmpty_decode` and
`C14_joinRuns_decode` (see `NpsVerif/Props/C14Assumed.lean`); the others are self-contained.
-/
open Model Model.RLA

namespace Props.C15
variable {α : Type}

/-- sanity instance -/
theorem decode_example : (RLA.mk [0, 2, 5, 6] [7, 8, 9]).decode = [7, 7, 8, 8, 8, 9] := by decide

/-- integer indexing: the dense element for `-n ≤ i < n`, a refusal otherwise -/
theorem C15_int (r : RLA α) (h : r.Valid) (i : Int) : r.getPosition i = Py.index r.decode i :=
  Proofs.RLIndex.getPosition_eq r h i

/-- integer list / array indexing (repeats, negatives; refused if any entry is out of range) -/
theorem C15_list (r : RLA α) (h : r.Valid) (is : List Int) :
    is.mapM r.getPosition = is.mapM (Py.index r.decode) := by
  have : r.getPosition = Py.index r.decode := funext (C15_int r h)
  rw [this]

/-- sub-range extraction -/
theorem C15_start_to_end (r : RLA α) (h : r.Valid) (s e : Nat) (hse : s < e) (he : e ≤ r.len) :
    (RLA.mk (r.startToEnd s e).1 (r.startToEnd s e).2).Valid ∧
    (RLA.mk (r.startToEnd s e).1 (r.startToEnd s e).2).decode = (r.decode.drop s).take (e - s) :=
  ⟨Proofs.RLIndex.startToEnd_valid r h s e hse he, Proofs.RLIndex.startToEnd_decode r h s e hse he⟩

/-- stride subsetting (incl. reversal for negative steps) -/
theorem C15_step_subset (eq : α → α → Bool) (heq : ∀ x y, eq x y = true → x = y) (r : RLA α) (h : r.Valid)
    (k : Int) (hk : k ≠ 0) :
    (RLA.mk (r.stepSubset eq k).1 (r.stepSubset eq k).2).Valid ∧
    (RLA.mk (r.stepSubset eq k).1 (r.stepSubset eq k).2).decode = Py.slice r.decode none none k :=
  Proofs.RLIndex.stepSubset_spec eq heq r h k hk

/-- the clamp of the repaired code does not change what a stepped slice selects: the clamped and the unclamped stride arithmetic decode to the same array -/
theorem C15_step_clamp (eq : α → α → Bool) (heq : ∀ x y, eq x y = true → x = y) (r : RLA α) (h : r.Valid) (k : Int) (hk : k ≠ 0) :
    (RLA.mk (r.stepSubset eq k).1 (r.stepSubset eq k).2).decode = (RLA.mk (r.stepSubsetCore eq k).1 (r.stepSubsetCore eq k).2).decode :=
  Proofs.RLIndex.stepSubset_decode_eq_core eq heq r h k hk

/-- non-vacuity of `C15_step_clamp`: `[7,7,8,8,8,9]` (length 6) with the step 100, clamped to 6 -/
example :
    (RLA.mk [0, 2, 5, 6] [7, 8, 9]).validB = true ∧
    (RLA.mk ((RLA.mk [0, 2, 5, 6] [7, 8, 9]).stepSubset (fun a b => a == b) 100).1
        ((RLA.mk [0, 2, 5, 6] [7, 8, 9]).stepSubset (fun a b => a == b) 100).2).decode = [7] ∧
    (RLA.mk ((RLA.mk [0, 2, 5, 6] [7, 8, 9]).stepSubsetCore (fun a b => a == b) 100).1
        ((RLA.mk [0, 2, 5, 6] [7, 8, 9]).stepSubsetCore (fun a b => a == b) 100).2).decode = [7] ∧
    (RLA.mk ((RLA.mk [0, 2, 5, 6] [7, 8, 9]).stepSubset (fun a b => a == b) (-100)).1
        ((RLA.mk [0, 2, 5, 6] [7, 8, 9]).stepSubset (fun a b => a == b) (-100)).2).decode = [9] ∧
    (RLA.mk [0, 2, 5, 6] [7, 8, 9]).stepSubset (fun a b => a == b) 100 =
      (RLA.mk [0, 2, 5, 6] [7, 8, 9]).stepSubsetCore (fun a b => a == b) 6 := by decide

/-- HEADLINE: every slice (any start/stop incl. None, negative, beyond the ends; any step ≠ 0)
is accepted and decodes to CPython's slice of the dense array, as a valid run-length array -/
theorem C15_slice (eq : α → α → Bool) (heq : ∀ x y, eq x y = true → x = y) (r : RLA α) (h : r.Valid)
    (a b k : Option Int) (hk : k ≠ some 0) :
    ∃ r', r.getSlice eq a b k = some r' ∧ r'.Valid ∧ r'.decode = Py.slice r.decode a b (k.getD 1) :=
  Proofs.RLIndex.getSlice_spec eq heq r h a b k hk

/-- a zero step is refused -/
theorem C15_slice_zero_step (eq : α → α → Bool) (r : RLA α) (a b : Option Int) :
    r.getSlice eq a b (some 0) = none :=
  Proofs.RLIndex.getSlice_zero_step eq r a b

/-- windows: one sub-range per (start, stop) pair -/
theorem C15_windows (r : RLA α) (h : r.Valid) (ss es : List Nat)
    (hw : ∀ p ∈ ss.zip es, p.1 < p.2 ∧ p.2 ≤ r.len) :
    (r.windows ss es).map (fun p => (RLA.mk p.1 p.2).decode) =
      List.zipWith (fun s e => (r.decode.drop s).take (e - s)) ss es :=
  Proofs.RLIndex.windows_decode r h ss es hw

/-- boolean run-length mask: keeps, in order, exactly the cells whose mask is true -/
theorem C15_rl_mask (r : RLA α) (h : r.Valid) (m : RLA Bool) (hm : m.Valid) (hl : m.len = r.len) :
    ∃ r', r.getitemBool m = some r' ∧ r'.Valid ∧
      r'.decode = (r.decode.zip m.decode).filterMap (fun p => if p.2 then some p.1 else none) :=
  Proofs.RLIndex.getitemBool_spec r h m hm hl

/-! ## concrete instances (`decide`, no axioms) -/

/-- `[5,5,7,7,7,5,9]` as a run-length array -/
def ex : RLA Nat := ⟨[0, 2, 5, 6, 7], [5, 7, 5, 9]⟩

example : ex.validB = true := by decide
example : ex.decode = [5, 5, 7, 7, 7, 5, 9] := by decide
-- `a[:1:-2] = [9,7,7]`
example : ex.getSlice (· == ·) none (some 1) (some (-2)) = some ⟨[0, 1, 3], [9, 7]⟩ := by decide
example : (ex.getSlice (· == ·) none (some 1) (some (-2))).map decode = some [9, 7, 7] := by decide
example : Py.slice ex.decode none (some 1) (-2) = [9, 7, 7] := by decide
-- bounds beyond both ends, `a[-100:100]`
example : (ex.getSlice (· == ·) (some (-100)) (some 100) none).map decode =
    some [5, 5, 7, 7, 7, 5, 9] := by decide
-- `a[3:100:3] = [7,9]`, `a[100:3:-3] = [9]`... checked against the specification
example : (ex.getSlice (· == ·) (some 3) (some 100) (some 3)).map decode =
    some (Py.slice ex.decode (some 3) (some 100) 3) := by decide
example : (ex.getSlice (· == ·) (some 100) (some 3) (some (-3))).map decode = some [9] := by decide
-- an empty range, `a[10:20]`, is the empty run-length array
example : ex.getSlice (· == ·) (some 10) (some 20) none = some ⟨[0], []⟩ := by decide
-- neighbouring runs with equal values are joined: `a[::5] = [5,5]`
example : ex.getSlice (· == ·) none none (some 5) = some ⟨[0, 2], [5]⟩ := by decide
example : ex.getSlice (· == ·) none none (some 0) = none := by decide
-- integers
example : ex.getPosition (-1) = some 9 := by decide
example : ex.getPosition 4 = some 7 := by decide
example : ex.getPosition 7 = none := by decide
example : ex.getPosition (-8) = none := by decide
example : [0, -7, 6].mapM ex.getPosition = some [5, 5, 9] := by decide
example : [0, 7].mapM ex.getPosition = none := by decide
-- sub-range and windows
example : ex.startToEnd 1 6 = ([0, 1, 4, 5], [5, 7, 5]) := by decide
example : (ex.windows [0, 4] [3, 7]).map (fun p => (RLA.mk p.1 p.2).decode) = [[5, 5, 7], [7, 5, 9]] := by decide
-- run-length boolean mask `[T,F,F,T,T,T,F]`
example : (ex.getitemBool ⟨[0, 1, 3, 6, 7], [true, false, true, false]⟩).map decode = some [5, 7, 7, 5] := by decide

-- a step beyond the length (`a[::100] = [5]`, `a[::-100] = [9]`): clamped to the length 7
example : ex.stepSubset (· == ·) 100 = ([0, 1], [5]) := by decide
example : ex.stepSubset (· == ·) (-100) = ([0, 1], [9]) := by decide
example : ex.getSlice (· == ·) none none (some 100) = some ⟨[0, 1], [5]⟩ := by decide

end Props.C15
