import NpsVerif.Props.C19C
/-! Property C19 (b), kernel K3 (`RaggedView2.col_slice`, slice branch) in wrapping 32-bit arithmetic: composed from
K1 and K2. -/
namespace Props.C19
open Gen
set_option linter.unusedSimpArgs false

/-- K3 (slice of any non-zero step): int32 computation = ideal computation, for every row and every clipped slice -/
theorem C19_col_slice_w32 (len start0 : Int) (a b k : Option Int)
    (hlen : 0 ≤ len) (hs : 0 ≤ start0) (hsize : start0 + len ≤ 2147483647)
    (ha : Clipped a) (hb : Clipped b) (hk : Clipped k) (hk0 : k ≠ some 0) :
    vals3 (CurW.col_slice_slice (.lift len) (.lift start0) (.lift 1) (a.map .lift) (b.map .lift) (k.map .lift))
      = Cur.col_slice_slice len start0 1 a b k := by
  have hK1 := C19_calc_lengths_w32 len a b k hlen (by omega) ha hb hk hk0
  cases k with
  | none =>
    have hK2 := C19_pos_col_slice_w32 len start0 a b 1 hlen hs hsize ha hb (by omega) (by unfold B30; omega)
    simp only [CurW.col_slice_slice, Cur.col_slice_slice, Option.map]
    have h1 : decide ((1 : W32) > (0 : W32)) = true := by decide
    have h2 : decide ((1 : Int) > (0 : Int)) = true := by decide
    simp only [h1, h2, if_true]
    exact hK2
  | some k =>
    have hkb := hk k rfl
    unfold B30 at hkb
    have hk0' : k ≠ 0 := fun h => hk0 (by rw [h])
    rcases Int.lt_or_lt_of_ne hk0' with hneg | hpos
    · have hc : decide (W32.lift k > (0 : W32)) = false := decide_eq_false (by show ¬ ((0 : Int) < k); omega)
      have hc' : decide (k > (0 : Int)) = false := decide_eq_false (by omega)
      simp only [CurW.col_slice_slice, Cur.col_slice_slice, Option.map, hc, hc', Bool.false_eq_true, if_false, vals3]
      simp only [Option.map] at hK1
      rw [hK1]
      unfold Clipped B30 at ha
      cases a with
      | none => w32_arith
      | some a => have := ha a rfl; w32_arith
    · have hK2 := C19_pos_col_slice_w32 len start0 a b k hlen hs hsize ha hb hpos (by unfold B30; omega)
      have hc : decide (W32.lift k > (0 : W32)) = true := decide_eq_true (by show (0 : Int) < k; omega)
      have hc' : decide (k > (0 : Int)) = true := decide_eq_true (by omega)
      simp only [CurW.col_slice_slice, Cur.col_slice_slice, Option.map, hc, hc', if_true]
      exact hK2

end Props.C19

namespace Props.C19
open Gen

/-- the hypotheses are satisfiable, and the theorem says something: a row of 2^30 + 5 cells sliced with step 2^30 - 1 -/
example : vals3 (CurW.col_slice_slice (.lift 1073741829) (.lift 7) (.lift 1) none none (some (.lift 1073741823)))
    = (7, 2, 1073741823) := by decide +kernel

/-- finding F19c (fixed in /repo, commit 83ed120): the ceiling division `(stop - start + (step - 1)) // step` of the earlier
`_pos_col_slice`, in 32-bit arithmetic, is 0 for that row — the sum wraps — where the ideal value is 2 -/
theorem C19_F19c_old_length_formula_wraps :
    let len : W32 := .lift 1073741829; let step : W32 := .lift 1073741823
    (max (0 : W32) (W32.fdiv ((len - 0) + (step - 1)) step)).v = 0 ∧
    max (0 : Int) (Int.fdiv ((1073741829 - 0) + (1073741823 - 1)) 1073741823) = 2 := by decide +kernel

end Props.C19
