import NpsVerif.Props.C14
/-! The C14 statements the C15 / C16 proofs build on are proved in `Props/C14.lean`. -/
