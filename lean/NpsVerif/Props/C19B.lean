import NpsVerif.Proofs.Wrap32
/-! Property C19, part (b) continued: the column-slice arithmetic of a ragged view (kernels K1-K4, generated from
/repo's source on every run) computed in wrapping signed 32-bit integers — what numpy does with `int32` shape
arrays — returns exactly the values of the same kernel over unbounded integers: no wrap-around reaches a result.
These theorems are about the GENERATED kernels `Gen.CurW.*` / `Gen.Cur.*` themselves, so they are re-proved against
the current source on every run.

Domain: one row `(start0, len)` of a buffer whose size fits the index dtype (`start0 + len ≤ 2^31 - 1`), unit
column step (the only views `IndexableArray._get_row_col_subset` builds), slice fields clipped to
`±(iinfo(int32).max // 2)` (what `IndexableArray._bounded_slice` does before calling `col_slice`). -/
namespace Props.C19
open Gen
set_option linter.unusedSimpArgs false

/-- `iinfo(int32).max // 2`: the bound `IndexableArray._bounded_slice` clips slice bounds and steps to -/
def B30 : Int := 1073741823

/-- a clipped slice field -/
def Clipped (o : Option Int) : Prop := ∀ v, o = some v → -B30 ≤ v ∧ v ≤ B30

/-- values of a triple of 32-bit integers -/
def vals3 (t : W32 × W32 × W32) : Int × Int × Int := (t.1.v, t.2.1.v, t.2.2.v)

/-- K2 (positive step): int32 computation = ideal computation -/
theorem C19_pos_col_slice_w32 (len start0 : Int) (a b : Option Int) (k : Int)
    (hlen : 0 ≤ len) (hs : 0 ≤ start0) (hsize : start0 + len ≤ 2147483647)
    (ha : Clipped a) (hb : Clipped b) (hk : 0 < k) (hk2 : k ≤ B30) :
    vals3 (CurW.pos_col_slice (.lift len) (.lift start0) (.lift 1) (a.map .lift) (b.map .lift) (.lift k))
      = Cur.pos_col_slice len start0 1 a b k := by
  unfold Clipped B30 at ha hb
  unfold B30 at hk2
  simp only [vals3, CurW.pos_col_slice, Cur.pos_col_slice]
  cases a with
  | none =>
    cases b with
    | none => w32_arith
    | some b => have := hb b rfl; w32_arith
  | some a =>
    have := ha a rfl
    cases b with
    | none => w32_arith
    | some b => have := hb b rfl; w32_arith

/-- K4 (`RaggedView2.ends`) -/
theorem C19_view2_ends_w32 (len start0 : Int) (hlen : 0 ≤ len) (hs : 0 ≤ start0) (hsize : start0 + len ≤ 2147483647) :
    (CurW.view2_ends (.lift len) (.lift start0) (.lift 1)).v = Cur.view2_ends len start0 1 := by
  simp only [CurW.view2_ends, Cur.view2_ends]
  w32_arith

/-- values of an optional pair of 32-bit integers -/
def vals2 (t : Option (W32 × W32)) : Option (Int × Int) := t.map fun p => (p.1.v, p.2.v)

/-- K3, integer column (any Python integer `idx`; out-of-range ones are refused by the guard): same refusals, same
cells -/
theorem C19_col_slice_int_w32 (len start0 idx : Int) (hlen : 0 ≤ len) (hs : 0 ≤ start0)
    (hsize : start0 + len ≤ 2147483647) :
    vals2 (CurW.col_slice_int (.lift len) (.lift start0) (.lift 1) (.lift idx)) = Cur.col_slice_int len start0 1 idx := by
  simp only [vals2, CurW.col_slice_int, Cur.col_slice_int, CurW.view2_ends, Cur.view2_ends, apply_ite (Option.map _)]
  w32_arith

end Props.C19
