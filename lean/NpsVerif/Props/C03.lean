import NpsVerif.Model.SetItem
import NpsVerif.Proofs.SetItemMain
/-! Property C03: assignment `ra[index] = value` (and `ra[ragged_bool_mask] = value`) on
`RaggedArray(rows)` = writing the values, in order, into the cells the index addresses on the plain
list of rows.  Helper lemmas: `Proofs/SetItemCells.lean` (one write, the write fold, the coordinate
grid), `Proofs/SetItemNat.lean` (`Py.getitem` is natural in the cell type), `Proofs/SetItemScatter.lean`
(cell write = flat `set`; the position grid), `Proofs/SetItemFlat.lean` (`flatIndex` vs `getitem`),
`Proofs/SetItemMain.lean` (value shaping, scatter, assembly).  The column-vector case uses
`Props.C04.C04_raw_broadcast` (imported from `Props/C04Assumed.lean`). -/
namespace Props.C03
open Model Model.SI
variable {α : Type}

/-- sanity instance -/
theorem setCell_example : Py.setCell [[1, 2], [], [3]] (2, 0) 9 = [[1, 2], [], [9]] := by decide

/-- the cells an index expression addresses, in order -/
def addressed (rows : List (List α)) (idx : Index) : Option (List (Nat × Nat)) :=
  (Py.getitem (Py.coords rows) idx).map Py.resCells

/-- HEADLINE: the model of `ra[idx] = value` equals writing the values, in order, into the cells the
index addresses on the plain list of rows; it refuses exactly when that does -/
theorem C03_setitem [XorLike α] (rows : List (List α)) (idx : Index) (v : Value α) :
    (setitem (RA.ofRows rows) idx v).map RA.rows = Py.setitem rows idx v :=
  setitem_ofRows rows idx v

/-- the array keeps its shape object (number of rows, row lengths) -/
theorem C03_setitem_shape [XorLike α] (a : RA α) (idx : Index) (v : Value α) (a' : RA α)
    (h : setitem a idx v = some a') : a'.shape = a.shape := by
  rw [setitem_def] at h
  cases hf : flatIndex a.shape.codes idx with
  | none => simp [hf] at h
  | some fs =>
    simp only [hf, Option.bind_some] at h
    cases hv : shapeVals fs.1.length fs.2 v with
    | none => simp [hv] at h
    | some vals =>
      simp only [hv, Option.bind_some] at h
      cases hs : scatterInt a.data (fs.1.zip vals) with
      | none => simp [hs] at h
      | some d =>
        simp only [hs, Option.map_some, Option.some.injEq] at h
        rw [← h]

/-- boolean ragged mask assignment -/
theorem C03_setitem_mask (rows : List (List α)) (mask : List (List Bool)) (v : Value α)
    (hm : mask.map List.length = rows.map List.length) :
    (setitemMask (RA.ofRows rows) mask v).map RA.rows = Py.setitemMask rows mask v :=
  setitemMask_ofRows rows mask v hm

/-- what `Py.setitem` returns when it accepts: the addressed cells, zipped with the shaped values,
written in order -/
theorem setitem_some (rows : List (List α)) (idx : Index) (v : Value α) (rows' : List (List α))
    (h : Py.setitem rows idx v = some rows') :
    ∃ sel vals, Py.getitem (Py.coords rows) idx = some sel ∧ pyShapeVals sel v = some vals ∧
      rows' = writeCells rows ((Py.resCells sel).zip vals) := by
  rw [py_setitem_def] at h
  cases hs : Py.getitem (Py.coords rows) idx with
  | none => simp [hs] at h
  | some sel =>
    simp only [hs, Option.bind_some] at h
    cases hv : pyShapeVals sel v with
    | none => simp [hv] at h
    | some vals =>
      simp only [hv, Option.map_some, Option.some.injEq] at h
      exact ⟨sel, vals, rfl, hv, h.symm⟩

/-- spec level: row count and row lengths never change -/
theorem C03_lengths (rows : List (List α)) (idx : Index) (v : Value α) (rows' : List (List α))
    (h : Py.setitem rows idx v = some rows') : rows'.map List.length = rows.map List.length := by
  obtain ⟨sel, vals, _, _, rfl⟩ := setitem_some rows idx v rows' h
  exact writeCells_lengths rows _

/-- spec level, frame: a cell that is not addressed keeps its content -/
theorem C03_frame (rows : List (List α)) (idx : Index) (v : Value α) (rows' : List (List α))
    (h : Py.setitem rows idx v = some rows') (cells : List (Nat × Nat)) (hc : addressed rows idx = some cells)
    (r c : Nat) (hn : (r, c) ∉ cells) :
    (rows'[r]?).bind (·[c]?) = (rows[r]?).bind (·[c]?) := by
  obtain ⟨sel, vals, hs, _, rfl⟩ := setitem_some rows idx v rows' h
  simp only [addressed, hs, Option.map_some, Option.some.injEq] at hc
  subst hc
  apply cellAt_writeCells_frame rows _ (r, c)
  intro w hw e
  exact hn (e ▸ (List.of_mem_zip hw).1)

/-- spec level, written: with pairwise distinct addressed cells (non-repeating selectors), a scalar
assignment puts the scalar into every addressed cell -/
theorem C03_written_scalar (rows : List (List α)) (idx : Index) (x : α) (rows' : List (List α))
    (h : Py.setitem rows idx (.scalar x) = some rows') (cells : List (Nat × Nat)) (hc : addressed rows idx = some cells)
    (r c : Nat) (hm : (r, c) ∈ cells) :
    (rows'[r]?).bind (·[c]?) = some x := by
  obtain ⟨sel, vals, hs, hv, rfl⟩ := setitem_some rows idx (.scalar x) rows' h
  simp only [addressed, hs, Option.map_some, Option.some.injEq] at hc
  subst hc
  have hvals : vals = List.replicate (Py.resCells sel).length x := by
    cases sel <;> simp [pyShapeVals] at hv <;> exact hv.symm
  subst hvals
  rw [zip_replicate_eq]
  have := cellAt_writeCells_const rows (Py.resCells sel) x (r, c)
  rw [if_pos hm] at this
  obtain ⟨y, hy⟩ := mem_coords_cellAt rows (r, c) (getitem_cells_mem _ idx sel hs _ hm)
  rw [hy] at this
  exact this

/-! ### concrete instances (kernel-checked evaluation of both sides) -/

/-- `ra[:, ::-2] = column [100, 101, 102]`: an empty row in the middle, negative column step -/
example : (setitem (RA.ofRows [[0, 1, 2], [], [3, 4]]) (.rowcol (.slice none none none) (.slice none none (some (-2))))
      (.column [100, 101, 102])).map RA.rows = some [[100, 1, 100], [], [3, 102]]
    ∧ Py.setitem [[0, 1, 2], [], [3, 4]] (.rowcol (.slice none none none) (.slice none none (some (-2))))
      (.column [100, 101, 102]) = some [[100, 1, 100], [], [3, 102]] := by decide

/-- a ragged value whose row lengths do not match the selection is refused on both sides -/
example : setitem (RA.ofRows [[0, 1, 2], [], [3, 4]]) (.rows (.slice (some 1) none none))
      (.ragged [[7], [8, 9]]) = none
    ∧ Py.setitem [[0, 1, 2], [], [3, 4]] (.rows (.slice (some 1) none none)) (.ragged [[7], [8, 9]]) = none := by
  decide

/-- a matching ragged value on a reversed row selection -/
example : (setitem (RA.ofRows [[0, 1, 2], [], [3, 4]]) (.rows (.slice none none (some (-1))))
      (.ragged [[7, 8], [], [9, 10, 11]])).map RA.rows = some [[9, 10, 11], [], [7, 8]]
    ∧ Py.setitem [[0, 1, 2], [], [3, 4]] (.rows (.slice none none (some (-1))))
      (.ragged [[7, 8], [], [9, 10, 11]]) = some [[9, 10, 11], [], [7, 8]] := by decide

/-- fancy rows with a repeated index: the last write wins; negative column -/
example : (setitem (RA.ofRows [[0, 1, 2], [], [3, 4]]) (.rowcol (.list [0, -1, 0]) (.int (-1)))
      (.flat [50, 51, 52])).map RA.rows = some [[0, 1, 52], [], [3, 51]]
    ∧ Py.setitem [[0, 1, 2], [], [3, 4]] (.rowcol (.list [0, -1, 0]) (.int (-1))) (.flat [50, 51, 52])
      = some [[0, 1, 52], [], [3, 51]] := by decide

/-- an integer column outside one of the selected rows is refused on both sides -/
example : setitem (RA.ofRows [[0, 1, 2], [], [3, 4]]) (.rowcol .all (.int 0)) (.scalar 9) = none
    ∧ Py.setitem [[0, 1, 2], [], [3, 4]] (.rowcol .all (.int 0)) (.scalar 9) = none := by decide

/-- boolean ragged mask assignment -/
example : (setitemMask (RA.ofRows [[0, 1, 2], [], [3, 4]]) [[true, false, true], [], [false, true]]
      (.flat [7, 8, 9])).map RA.rows = some [[7, 1, 8], [], [3, 9]]
    ∧ Py.setitemMask [[0, 1, 2], [], [3, 4]] [[true, false, true], [], [false, true]] (.flat [7, 8, 9])
      = some [[7, 1, 8], [], [3, 9]] := by decide

/-- a mask of the wrong shape is refused by the specification; a value of the wrong size by both -/
example : Py.setitemMask [[0, 1, 2], [], [3, 4]] [[true, false], [true], [false, true]] (.scalar 7) = none
    ∧ setitemMask (RA.ofRows [[0, 1, 2], [], [3, 4]]) [[true, false, true], [], [false, true]] (.flat [7, 8]) = none
    ∧ Py.setitemMask [[0, 1, 2], [], [3, 4]] [[true, false, true], [], [false, true]] (.flat [7, 8]) = none := by
  decide

/-- the addressed cells of `[:, ::-2]`, in write order -/
example : addressed [[0, 1, 2], [], [3, 4]] (.rowcol (.slice none none none) (.slice none none (some (-2))))
    = some [(0, 2), (0, 0), (2, 1)] := by decide

end Props.C03
