import NpsVerif.Model.SetItem
namespace Props.C03
open Model
/-- sanity instance; the universally quantified theorems are added as they are proved -/
theorem setCell_example : Py.setCell [[1, 2], [], [3]] (2, 0) 9 = [[1, 2], [], [9]] := by decide
end Props.C03
