import NpsVerif.Proofs.StructA
import NpsVerif.Props.C01
/-!
# Property C08 (part A) — structural functions read row by row

`concatenate` along rows / columns, `zeros_like` / `ones_like`, `nonzero`, `where`, `subset`, boolean
mask indexing.  `RA.ofRows rows` is the array built from the rows; every statement quantifies over all
row-length vectors (empty rows anywhere, zero rows) and all contents.
-/
open Model

namespace Props.C08
open Np Proofs.StructA Proofs.UfuncRows
variable {α : Type}

theorem C08_concat_rows (as : List (List (List α))) (h : as ≠ []) :
    (concatRows (as.map RA.ofRows)).map RA.rows = some as.flatten := by
  cases as with
  | nil => exact absurd rfl h
  | cons a rest =>
    have hd : (((a :: rest).map RA.ofRows).map (·.data)).flatten = (a :: rest).flatten.flatten := by
      rw [List.map_map, List.flatten_flatten]
      rfl
    have hl : (((a :: rest).map RA.ofRows).map (·.shape.lengths)).flatten
        = (a :: rest).flatten.map List.length := by
      rw [List.map_map, List.map_flatten]
      congr 1
      apply List.map_congr_left
      intro b _
      exact (Props.C01.C01_of_rows b).2.2.2.1
    show (RA.ofFlat (((a :: rest).map RA.ofRows).map (·.data)).flatten
      (((a :: rest).map RA.ofRows).map (·.shape.lengths)).flatten).map RA.rows = _
    rw [hd, hl]
    exact ofFlat_rows _ _ rfl

/-- along columns: corresponding rows are joined (operands with `n` rows each) -/
theorem C08_concat_cols (as : List (List (List α))) (h : as ≠ []) (n : Nat) (hn : ∀ a ∈ as, a.length = n) :
    (concatCols (as.map RA.ofRows)).map RA.rows =
      some ((List.range n).map (fun i => (as.map (fun a => (a[i]?).getD [])).flatten)) := by
  cases as with
  | nil => exact absurd rfl h
  | cons a rest =>
    have ha : (RA.ofRows a).len = n := by rw [ofRows_len]; exact hn a (by simp)
    have hf : (rest.map RA.ofRows).foldl (fun m b => min m b.len) (RA.ofRows a).len = n := by
      rw [ha]
      apply foldl_min_const
      intro b hb
      rw [List.mem_map] at hb
      obtain ⟨b', hb', rfl⟩ := hb
      rw [ofRows_len]
      exact hn b' (by simp [hb'])
    show Option.map RA.rows (some (RA.ofRows ((List.range
      ((rest.map RA.ofRows).foldl (fun m b => min m b.len) (RA.ofRows a).len)).map
        (fun i => (((a :: rest).map RA.ofRows).map (fun b => (b.rows[i]?).getD [])).flatten)))) = _
    rw [hf, Option.map_some, ofRows_rows]
    simp only [List.map_map, Function.comp_def, ofRows_rows]

theorem C08_like (rows : List (List α)) (c : α) :
    (fullLike (RA.ofRows rows) c).rows = rows.map (·.map (fun _ => c)) := by
  unfold fullLike RA.ofRows
  simp only [ofLens_size]
  rw [replicate_sum_lengths]
  exact rows_mk _ _ (by simp [Function.comp_def])

/-- `np.empty_like(ra)`: a fresh buffer of `ra.size` cells of **whatever content** under `ra`'s geometry has exactly `ra`'s
row lengths, and its rows are that buffer cut at those lengths (nothing is said about the content: numpy leaves it arbitrary) -/
theorem C08_empty_like {β : Type} (rows : List (List α)) (buf : List β) (h : buf.length = (RA.ofRows rows).size) :
    (⟨buf, (RA.ofRows rows).shape⟩ : RA β).rows.map List.length = rows.map List.length ∧
    (⟨buf, (RA.ofRows rows).shape⟩ : RA β).rows.flatten = buf := by
  have hs : (rows.map List.length).sum = buf.length := by
    rw [h]; simp [RA.size, RA.ofRows, ofLens_lengths]
  obtain ⟨a, ha, hflat, hlen, -, -⟩ := Props.C01.C01_of_flat buf (rows.map List.length) hs
  have : a = ⟨buf, (RA.ofRows rows).shape⟩ := by
    simp [RA.ofFlat, ofLens_size, hs] at ha
    rw [← ha]; rfl
  subst this
  exact ⟨hlen, hflat⟩

example : (⟨[9, 8, 7], (RA.ofRows [[1, 2], [], [3]]).shape⟩ : RA Nat).rows = [[9, 8], [], [7]] := by decide
/-- nonzero: (row, column) coordinates of the true cells in row-major order -/
theorem C08_nonzero (rows : List (List Bool)) :
    nonzero (RA.ofRows rows) = some ((Spec.nonzeroCoords rows).map (·.1), (Spec.nonzeroCoords rows).map (·.2)) := by
  unfold nonzero RA.ofRows
  simp only []
  rw [flatnonzero_flatten, mapM_map_some]
  · rfl
  · rintro ⟨r, c⟩ hmem
    rw [nonzeroCoords_eq] at hmem
    obtain ⟨hr, _, hc⟩ := mem_coordsFrom 0 rows r c hmem
    simp only [Nat.sub_zero] at hr hc
    have := (Props.C01.C01_unravel_ravel (rows.map List.length) r c (by simpa using hr)
      (by simpa using hc)).2
    exact this

/-- where(mask, x, y) with a ragged mask of the operands' shape picks cell by cell -/
theorem C08_where_ragged (mask : List (List Bool)) (x y : List (List α))
    (hm : mask.map List.length = x.map List.length) (hy : y.map List.length = x.map List.length) :
    (whereRows (RA.ofRows mask) false (RA.ofRows x) (.inl (RA.ofRows y))).map RA.rows =
      some (List.zipWith (fun (m : List Bool) (xy : List α × List α) =>
              (m.zip (xy.1.zip xy.2)).map (fun t => if t.1 then t.2.1 else t.2.2)) mask (x.zip y)) := by
  have h1 : mask.flatten.length = x.flatten.length := by
    rw [← sum_map_length, ← sum_map_length, hm]
  have h2 : y.flatten.length = x.flatten.length := by
    rw [← sum_map_length, ← sum_map_length, hy]
  unfold whereRows
  simp only [Bool.false_eq_true, false_and, if_false, RA.ofRows, h1, h2, and_self, if_true,
    Option.map_some, Option.some.injEq]
  rw [zip3_flatten _ mask x y hm hy]
  exact rows_mk _ _ (zip3_lengths _ mask x y hm hy)

theorem C08_where_scalar (mask : List (List Bool)) (x : List (List α)) (c : α)
    (hm : mask.map List.length = x.map List.length) :
    (whereRows (RA.ofRows mask) false (RA.ofRows x) (.inr c)).map RA.rows =
      some (List.zipWith (fun (m : List Bool) (r : List α) => (m.zip r).map (fun t => if t.1 then t.2 else c)) mask x) := by
  have h1 : mask.flatten.length = x.flatten.length := by
    rw [← sum_map_length, ← sum_map_length, hm]
  unfold whereRows
  simp only [Bool.false_eq_true, false_and, if_false, RA.ofRows, h1, List.length_replicate, and_self,
    if_true, Option.map_some, Option.some.injEq]
  rw [zip_replicate_scalar c _ _ _ (by omega), zip2_flatten _ mask x hm]
  exact rows_mk _ _ (zip2_lengths _ mask x hm)

/-- subset keeps, in order, exactly the cells whose mask is true, row by row -/
theorem C08_subset (rows : List (List α)) (mask : List (List Bool)) (hm : mask.map List.length = rows.map List.length) :
    (subset (RA.ofRows rows) (RA.ofRows mask)).map RA.rows =
      some (List.zipWith (fun (r : List α) (m : List Bool) => (r.zip m).filterMap (fun p => if p.2 then some p.1 else none)) rows mask) := by
  have h1 : mask.flatten.length = rows.flatten.length := by
    rw [← sum_map_length, ← sum_map_length, hm]
  unfold subset
  rw [ofRows_rows]
  simp only [RA.ofRows, h1, ne_eq, not_true_eq_false, if_false]
  rw [filter_flatten rows mask hm]
  exact ofFlat_rows _ _ (counts_eq rows mask hm)

/-- mask indexing returns those cells flat -/
theorem C08_mask_index (rows : List (List α)) (mask : List (List Bool)) (hm : mask.map List.length = rows.map List.length) :
    maskIndex (RA.ofRows rows) (RA.ofRows mask) =
      some ((rows.flatten.zip mask.flatten).filterMap (fun p => if p.2 then some p.1 else none)) := by
  have h1 : mask.flatten.length = rows.flatten.length := by
    rw [← sum_map_length, ← sum_map_length, hm]
  have := maskIndex_flat mask.flatten rows.flatten [] 0 rfl (by omega)
  simpa [maskIndex, RA.ofRows, flatnonzero] using this

/-! ## non-vacuity: empty rows / empty operands / all-false masks -/

example : (concatRows ([[[1], []], [], [[], [2, 3]]].map RA.ofRows)).map RA.rows
    = some [[1], [], [], [2, 3]] := by decide
example : (concatRows (([] : List (List (List Nat))).map RA.ofRows)).map RA.rows = none := by decide
example : (concatCols ([[[1], []], [[], [2, 3]], [[], []]].map RA.ofRows)).map RA.rows
    = some [[1], [2, 3]] := by decide
example : (concatCols ([([] : List (List Nat)), []].map RA.ofRows)).map RA.rows = some [] := by decide
example : (fullLike (RA.ofRows [[1, 2], [], [3]]) 0).rows = [[0, 0], [], [0]] := by decide
example : nonzero (RA.ofRows [[], [true, false], [], [], [false, true, true], []])
    = some ([1, 4, 4], [0, 1, 2]) := by decide
example : nonzero (RA.ofRows [[false, false], [], [false]]) = some ([], []) := by decide
example : nonzero (RA.ofRows []) = some ([], []) := by decide
example : (whereRows (RA.ofRows [[true, false], [], [false]]) false (RA.ofRows [[1, 2], [], [3]])
    (.inl (RA.ofRows [[10, 20], [], [30]]))).map RA.rows = some [[1, 20], [], [30]] := by decide
example : (whereRows (RA.ofRows [[true, false], [], [false]]) false (RA.ofRows [[1, 2], [], [3]])
    (.inr 7)).map RA.rows = some [[1, 7], [], [7]] := by decide
example : (subset (RA.ofRows [[1, 2], [], [3]]) (RA.ofRows [[false, true], [], [true]])).map RA.rows
    = some [[2], [], [3]] := by decide
example : (subset (RA.ofRows [[1, 2], [], [3]]) (RA.ofRows [[false, false], [], [false]])).map RA.rows
    = some [[], [], []] := by decide
example : maskIndex (RA.ofRows [[1, 2], [], [3]]) (RA.ofRows [[false, true], [], [true]])
    = some [2, 3] := by decide
example : maskIndex (RA.ofRows [[1, 2], [], [3]]) (RA.ofRows [[false, false], [], [false]])
    = some [] := by decide

end Props.C08
