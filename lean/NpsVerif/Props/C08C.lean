import NpsVerif.Model.Structural
import NpsVerif.Props.C08B
import NpsVerif.Proofs.RaggedSliceNd
/-!
# Property C08 (part C): `ragged_slice` on 1-D and 2-D ndarray inputs

For a 1-D array every (start, end) pair cuts a window out of the WHOLE array; for a 2-D array row `i`
gets its own window (`base_starts = arange(n_rows) * n_cols`).  Same window arithmetic as for ragged
input (`C08_ragged_slice`): negative ends count from the end, ends beyond the end are clamped.
-/
namespace Props.C08
open Model
variable {α : Type}

theorem C08_ragged_slice_1d (a : List α) (ss es : List Int) (hl : ss.length = es.length) (hpos : ∀ s ∈ ss, 0 ≤ s) :
    raggedSlice1d a ss es = some ((ss.zip es).map (fun se => Spec.window a (some se.1) (some se.2))) := by
  unfold raggedSlice1d
  rw [if_neg (by simp [hl]), sliceByBounds_eq]
  · rw [List.zip_map_right, List.map_map]
    congr 1
    apply List.map_congr_left
    intro se _
    simp only [Function.comp, Prod.map, id, Spec.window, Option.getD_some, Int.zero_add]
  · intro p hp
    rw [List.zip_map_right] at hp
    obtain ⟨se, hse, rfl⟩ := List.mem_map.mp hp
    have h0 : 0 ≤ se.1 := hpos se.1 (List.of_mem_zip hse).1
    simp only [Prod.map, id]
    split <;> omega

theorem C08_ragged_slice_2d (m : List (List α)) (c : Nat) (hm : ∀ r ∈ m, r.length = c) (ss es : List Int)
    (hs : ss.length = m.length) (he : es.length = m.length) (hpos : ∀ s ∈ ss, 0 ≤ s) :
    raggedSlice2d m c ss es =
      some (List.zipWith (fun (r : List α) (se : Int × Int) => Spec.window r (some se.1) (some se.2)) m (ss.zip es)) := by
  rw [raggedSlice2d_eq_raggedSlice m c hm, C08_ragged_slice m ss es hs he hpos]

example : raggedSlice1d [10, 11, 12, 13, 14] [0, 2, 4, 1] [2, 9, -1, -2] = some [[10, 11], [12, 13, 14], [], [11, 12]] := by decide
example : raggedSlice2d [[1, 2, 3], [4, 5, 6]] 3 [0, 1] [2, -1] = some [[1, 2], [5]] := by decide
example : raggedSlice2d ([] : List (List Nat)) 3 [] [] = some [] := by decide

end Props.C08
