import NpsVerif.Model.RunLength
import NpsVerif.Proofs.RLBasic
import NpsVerif.Proofs.RLCodec
import NpsVerif.Proofs.RLClean
/-!
# C14: run-length encode / decode

`decode` is the specification.  Two of the nine target statements (`C14_decode_encode`,
`C14_roundtrip`) are FALSE without a hypothesis on `ne` (see `C14_decode_encode_counterexample`,
`C14_roundtrip_counterexample`): if `ne` calls two different neighbouring cells "not different"
(e.g. `0.0` and `-0.0`), the encoder merges them into one run and the decoder returns the first cell
for both.  They are stated here with the hypothesis that neighbouring cells of `a` which `ne` does
not separate are identical; `C14_decode_encode_general` says what is computed for an arbitrary `ne`.
The other seven statements are exactly as given.
-/
open Model Model.RLA

namespace Props.C14
variable {α : Type}

/-- sanity instance -/
theorem decode_example : (RLA.mk [0, 2, 5, 6] [7, 8, 9]).decode = [7, 7, 8, 8, 8, 9] := by decide

/-- the unrestricted statement `∀ ne a, (fromArray ne a).decode = a` fails -/
theorem C14_decode_encode_counterexample :
    (fromArray (fun (_ _ : Nat) => false) [1, 2]).decode = [1, 1] ∧
    ¬ (∀ (ne : Nat → Nat → Bool) (a : List Nat), (fromArray ne a).decode = a) := by
  refine ⟨by decide, fun h => absurd (h (fun _ _ => false) [1, 2]) (by decide)⟩

/-- for an ARBITRARY `ne`: decoding the encoding replaces every cell by the first cell of its
maximal chain of `ne`-false neighbours (`Proofs.RL.smear`) -/
theorem C14_decode_encode_general (ne : α → α → Bool) (a : List α) :
    (fromArray ne a).decode = Proofs.RL.smear ne a :=
  Proofs.RL.decode_fromArray ne a

/-- pointwise form of `C14_decode_encode_general`: cell `i` of the decoded encoding is `a[s]`, where
`s ≤ i` starts the maximal chain of `ne`-false neighbour pairs ending at `i` -/
theorem C14_decode_encode_pointwise (ne : α → α → Bool) (a : List α) (i : Nat) (hi : i < a.length) :
    ∃ s, s ≤ i ∧ (fromArray ne a).decode[i]? = a[s]? ∧
      (∀ j u v, s ≤ j → j < i → a[j]? = some u → a[j + 1]? = some v → ne u v = false) ∧
      (s = 0 ∨ ∃ u v, a[s - 1]? = some u ∧ a[s]? = some v ∧ ne u v = true) := by
  rw [C14_decode_encode_general]
  exact Proofs.RL.smear_getElem? ne a i hi

/-- encoding then decoding returns the array, provided neighbouring cells that `ne` does not
separate are identical (`ne` need not be irreflexive: NaN ≠ NaN is fine) -/
theorem C14_decode_encode (ne : α → α → Bool) (a : List α)
    (hne : ∀ i x y, a[i]? = some x → a[i+1]? = some y → ne x y = false → x = y) :
    (fromArray ne a).decode = a := by
  rw [Proofs.RL.decode_fromArray]
  exact Proofs.RL.smear_eq_self ne a ((Proofs.RL.adjAll_iff_getElem? _ a).mpr hne)

theorem C14_decode_encode_of_eq (ne : α → α → Bool) (hne : ∀ x y, ne x y = false → x = y)
    (a : List α) : (fromArray ne a).decode = a :=
  C14_decode_encode ne a (fun _ x y _ _ h => hne x y h)

/-- the encoder's output satisfies the constructor's invariants -/
theorem C14_encode_valid (ne : α → α → Bool) (a : List α) : (fromArray ne a).Valid :=
  Proofs.RL.fromArray_valid ne a

/-- length / size -/
theorem C14_len (r : RLA α) (h : r.Valid) : r.len = r.decode.length :=
  Proofs.RL.len_eq_decode_length r h

theorem C14_encode_len (ne : α → α → Bool) (a : List α) : (fromArray ne a).len = a.length :=
  Proofs.RL.fromArray_len ne a

/-- the XOR-scatter + prefix-XOR decoder equals `decode` on every valid run-length array over any
XOR-like type of bit patterns -/
theorem C14_toArray_eq_decode [XorLike α] (r : RLA α) (h : r.Valid) : r.toArray = r.decode :=
  Proofs.RL.toArray_eq_decode r h

/-- the unrestricted round-trip statement fails -/
theorem C14_roundtrip_counterexample :
    (fromArray (fun (_ _ : Nat) => false) [1, 2]).toArray = [1, 1] ∧
    ¬ (∀ (ne : Nat → Nat → Bool) (a : List Nat), (fromArray ne a).toArray = a) := by
  refine ⟨by decide, fun h => absurd (h (fun _ _ => false) [1, 2]) (by decide)⟩

/-- round trip through the bitwise decoder, arbitrary `ne` -/
theorem C14_roundtrip_general [XorLike α] (ne : α → α → Bool) (a : List α) :
    (fromArray ne a).toArray = Proofs.RL.smear ne a := by
  rw [C14_toArray_eq_decode _ (C14_encode_valid ne a), C14_decode_encode_general]

/-- round trip through the bitwise decoder (same hypothesis as `C14_decode_encode`) -/
theorem C14_roundtrip [XorLike α] (ne : α → α → Bool) (a : List α)
    (hne : ∀ i x y, a[i]? = some x → a[i+1]? = some y → ne x y = false → x = y) :
    (fromArray ne a).toArray = a := by
  rw [C14_toArray_eq_decode _ (C14_encode_valid ne a), C14_decode_encode ne a hne]

theorem C14_roundtrip_of_eq [XorLike α] (ne : α → α → Bool) (hne : ∀ x y, ne x y = false → x = y)
    (a : List α) : (fromArray ne a).toArray = a :=
  C14_roundtrip ne a (fun _ x y _ _ h => hne x y h)

/-- canonical: when `ne` is (the negation of) an equality test `eq`, no two adjacent runs of the
encoding have `eq`-equal values -/
theorem C14_encode_canonical (ne eq : α → α → Bool) (hne : ∀ x y, ne x y = !eq x y)
    (heq : ∀ x y, eq x y = true → x = y) (a : List α) :
    ∀ i, ∀ x y, (fromArray ne a).values[i]? = some x → (fromArray ne a).values[i+1]? = some y → eq x y = false := by
  cases a with
  | nil => intro i x y hx; simp [Proofs.RL.fromArray_nil] at hx
  | cons x0 xs =>
    rw [Proofs.RL.fromArray_cons]
    exact (Proofs.RL.adjAll_iff_getElem? _ _).mp (Proofs.RL.enc_canonical ne eq hne heq x0 xs)

/-- the clean-up helpers keep `decode` and establish their part of the canonical form -/
theorem C14_removeEmpty_decode (ev : List Nat) (vs : List α) (h : ev.length = vs.length + 1)
    (hmono : ev.Pairwise (· ≤ ·)) :
    (RLA.mk (removeEmpty ev vs).1 (removeEmpty ev vs).2).decode = (RLA.mk ev vs).decode ∧
    (removeEmpty ev vs).1.length = (removeEmpty ev vs).2.length + 1 ∧
    strictInc (removeEmpty ev vs).1 = true :=
  Proofs.RL.removeEmpty_decode ev vs h hmono

theorem C14_joinRuns_decode (eq : α → α → Bool) (heq : ∀ x y, eq x y = true → x = y) (r : RLA α) (h : r.Valid) :
    (RLA.mk (joinRuns eq r.events r.values).1 (joinRuns eq r.events r.values).2).decode = r.decode ∧
    (RLA.mk (joinRuns eq r.events r.values).1 (joinRuns eq r.events r.values).2).Valid :=
  Proofs.RL.joinRuns_decode eq heq r h

/-! ## Non-vacuity instances (all by `decide`) -/

/-- numpy `!=` on a type with a self-unequal value (7 plays NaN) -/
def nanNe (x y : Nat) : Bool := x != y || x == 7

-- the hypotheses of the corrected theorems are satisfiable, including by a reflexive `ne`
example : ∀ x y, nanNe x y = false → x = y := by
  intro x y h; simp [nanNe] at h; exact h.1
example (a : List Nat) : (fromArray nanNe a).decode = a :=
  C14_decode_encode_of_eq nanNe (by intro x y h; simp [nanNe] at h; exact h.1) a
example (a : List Nat) : (fromArray nanNe a).toArray = a :=
  C14_roundtrip_of_eq nanNe (by intro x y h; simp [nanNe] at h; exact h.1) a

-- empty array
example : fromArray (fun (x y : Nat) => x != y) [] = ⟨[0], []⟩ := by decide
example : (fromArray (fun (x y : Nat) => x != y) []).toArray = [] := by decide
-- all-equal array: one run
example : fromArray (fun (x y : Nat) => x != y) [5, 5, 5] = ⟨[0, 3], [5]⟩ := by decide
example : (fromArray (fun (x y : Nat) => x != y) [5, 5, 5]).decode = [5, 5, 5] := by decide
example : (fromArray (fun (x y : Nat) => x != y) [5, 5, 5]).toArray = [5, 5, 5] := by decide
example : (fromArray (fun (x y : Nat) => x != y) [5, 5, 5]).Valid := by unfold Valid; decide
-- all-different array: one run per cell
example : fromArray (fun (x y : Nat) => x != y) [1, 2, 3] = ⟨[0, 1, 2, 3], [1, 2, 3]⟩ := by decide
example : (fromArray (fun (x y : Nat) => x != y) [1, 2, 3]).toArray = [1, 2, 3] := by decide
example : (fromArray (fun (x y : Nat) => x != y) [1, 2, 3]).len = 3 := by decide
-- single element
example : fromArray (fun (x y : Nat) => x != y) [4] = ⟨[0, 1], [4]⟩ := by decide
example : (fromArray (fun (x y : Nat) => x != y) [4]).toArray = [4] := by decide
-- NaN-like value: 7 differs from itself, so two neighbouring 7s are two runs; round trip still exact
example : fromArray nanNe [7, 7, 3, 3, 7] = ⟨[0, 1, 2, 4, 5], [7, 7, 3, 7]⟩ := by decide
example : (fromArray nanNe [7, 7, 3, 3, 7]).decode = [7, 7, 3, 3, 7] := by decide
example : (fromArray nanNe [7, 7, 3, 3, 7]).toArray = [7, 7, 3, 3, 7] := by decide
example : (fromArray nanNe [7, 7, 3, 3, 7]).Valid := by unfold Valid; decide
-- Bool bit patterns
example : (fromArray (fun (x y : Bool) => x != y) [true, true, false, true]).toArray
    = [true, true, false, true] := by decide
-- a `ne` that merges different cells: the general form describes the (lossy) result
example : Proofs.RL.smear (fun (x y : Nat) => x / 2 != y / 2) [2, 3, 4, 5, 2] = [2, 2, 4, 4, 2] := by decide
example : (fromArray (fun (x y : Nat) => x / 2 != y / 2) [2, 3, 4, 5, 2]).decode = [2, 2, 4, 4, 2] := by decide
-- the canonical-form conclusion is not vacuous: there are adjacent run values
example : (fromArray (fun (x y : Nat) => x != y) [1, 1, 2]).values = [1, 2] := by decide
-- the XOR decoder on a hand-written valid array
example : (RLA.mk [0, 2, 5, 6] [7, 8, 9]).toArray = [7, 7, 8, 8, 8, 9] := by decide
example : (RLA.mk [0, 2, 5, 6] [7, 8, 9]).len = 6 := by decide
-- clean-up helpers: empty runs removed / equal neighbours joined
example : removeEmpty [0, 2, 2, 5, 5] [1, 2, 3, 4] = ([0, 2, 5], [1, 3]) := by decide
example : (RLA.mk [0, 2, 2, 5, 5] [1, 2, 3, 4]).decode = (RLA.mk [0, 2, 5] [1, 3]).decode := by decide
example : joinRuns (fun (x y : Nat) => x == y) [0, 2, 3, 5, 6] [1, 1, 2, 2] = ([0, 3, 6], [1, 2]) := by decide
example : (RLA.mk [0, 2, 3, 5, 6] [1, 1, 2, 2]).decode = (RLA.mk [0, 3, 6] [1, 2]).decode := by decide

end Props.C14
