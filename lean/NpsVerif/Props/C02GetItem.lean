import NpsVerif.Proofs.GetItem
import NpsVerif.Props.C02Assumed
/-! Property C02, headline: indexing `RaggedArray(rows)` = indexing the list of rows. -/
namespace Props.C02
open Model Gen

/-- HEADLINE: for every list of rows and every index expression of the grammar, the model of
`RaggedArray(rows)[idx]` equals the same selectors applied to the plain list of rows; in particular
it refuses exactly when they do. -/
theorem C02_getitem {α} (rows : List (List α)) (idx : Index) :
    getitem (RA.ofRows rows) idx = Py.getitem rows idx := by
  have h := getitem_codes (RA.ofRows rows).data (RA.ofRows rows).shape.codes
    (ofRows_codes_bound rows) idx
  rw [ofRows_cut rows] at h
  exact h

/-! concrete instances (kernel-checked evaluation of both sides) -/

/-- negative-step column slice over all rows, an empty row in the middle -/
example : getitem (RA.ofRows [[0, 1, 2], [], [3, 4]]) (.rowcol .all (.slice none none (some (-1))))
    = some (.ragged [[2, 1, 0], [], [4, 3]]) := by decide

example : Py.getitem [[0, 1, 2], [], [3, 4]] (.rowcol .all (.slice none none (some (-1))))
    = some (.ragged [[2, 1, 0], [], [4, 3]]) := by decide

/-- an integer column outside one of the selected rows is refused on both sides -/
example : getitem (RA.ofRows [[0, 1, 2], [], [3, 4]]) (.rowcol (.slice none none none) (.int 0)) = none
    ∧ Py.getitem [[0, 1, 2], [], [3, 4]] (.rowcol (.slice none none none) (.int 0)) = none := by decide

example : getitem (RA.ofRows [[0, 1, 2], [], [3, 4]]) (.rowcol (.int 2) (.int 2)) = none
    ∧ Py.getitem [[0, 1, 2], [], [3, 4]] (.rowcol (.int 2) (.int 2)) = none := by decide

/-- fancy rows with a negative index, negative column -/
example : getitem (RA.ofRows [[0, 1, 2], [], [3, 4]]) (.rowcol (.list [-1, 0]) (.int (-2)))
    = some (.vec [3, 1]) := by decide

/-- zero step refused -/
example : getitem (RA.ofRows [[0, 1, 2], [], [3, 4]]) (.rowcol (.int 0) (.slice none none (some 0)))
    = none := by decide

end Props.C02
