import NpsVerif.Model.ArgReduce
import NpsVerif.Props.C05
import NpsVerif.Proofs.ArgReduceB
/-!
# Property C05 (part B): `argmax` / `argmin` along rows

`_first_position_of` (column-broadcast comparison, `np.nonzero`, first coordinate per row by
`np.unique(return_index=True)`, scatter into zeros) returns, for every row, the first column whose cell
equals the row's entry of the column vector — 0 when there is none.  With the row maxima / minima of
`_reduce` this is numpy's `argmax` / `argmin` of every NON-EMPTY row (first occurrence of the extremum);
empty rows have no arg-extremum and are reported as 0.
-/
namespace Props.C05
open Model
variable {α : Type}

/-- first position of `v` in `row`, 0 when there is none -/
def firstPos (eq : α → α → Bool) (row : List α) (v : α) : Nat := (row.findIdx? (fun x => eq x v)).getD 0

/-- `_first_position_of`: for every placement of empty rows, every column vector of the right length and
every comparison `eq` -/
theorem C05_first_position_of [XorLike α] (eq : α → α → Bool) (rows : List (List α)) (vals : List α)
    (h : vals.length = rows.length) :
    firstPositionOf eq (RA.ofRows rows) vals = some (List.zipWith (firstPos eq) rows vals) :=
  Proofs.ArgReduce.first_position_of eq rows vals h

/-- `argmax(axis=-1)`: one entry per row; for a non-empty row the FIRST position of its maximum; 0 for an
empty row -/
theorem C05_argmax (rows : List (List Int)) :
    ∃ r, argmaxRows (RA.ofRows rows) = some r ∧ r.length = rows.length ∧
      (∀ (i : Nat) (row : List Int), rows[i]? = some row → row ≠ [] →
        ∃ j m, r[i]? = some j ∧ row[j]? = some m ∧ (∀ x ∈ row, x ≤ m) ∧
          ∀ k x, k < j → row[k]? = some x → x < m) ∧
      (∀ i : Nat, rows[i]? = some [] → r[i]? = some 0) :=
  Proofs.ArgReduce.argmax_spec rows

/-- `argmin(axis=-1)` -/
theorem C05_argmin (rows : List (List Int)) :
    ∃ r, argminRows (RA.ofRows rows) = some r ∧ r.length = rows.length ∧
      (∀ (i : Nat) (row : List Int), rows[i]? = some row → row ≠ [] →
        ∃ j m, r[i]? = some j ∧ row[j]? = some m ∧ (∀ x ∈ row, m ≤ x) ∧
          ∀ k x, k < j → row[k]? = some x → m < x) ∧
      (∀ i : Nat, rows[i]? = some [] → r[i]? = some 0) :=
  Proofs.ArgReduce.argmin_spec rows

/-! ## concrete instances -/
example : argmaxRows (RA.ofRows [[1, 5, 5, 2], [], [3], [-1, -7, -1], []]) = some [1, 0, 0, 0, 0] := by decide
example : argminRows (RA.ofRows [[1, 5, 5, 2], [], [3], [-1, -7, -1], []]) = some [0, 0, 0, 1, 0] := by decide
example : argmaxRows (RA.ofRows [[], []]) = some [0, 0] := by decide
example : firstPositionOf (fun (x y : Int) => x == y) (RA.ofRows [[4, 9], [], [9, 9]]) [9, 9, 9] = some [1, 0, 0] := by decide

end Props.C05
