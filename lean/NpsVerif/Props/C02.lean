import NpsVerif.Props.C02Kernels
import NpsVerif.Props.C02Gather
import NpsVerif.Props.C02GetItem
/-! Property C02: the theorems live in `Props/C02Kernels.lean` (column-slice kernels, regenerated from
source), `Props/C02Gather.lean` (gather-index builder, materialisation) and `Props/C02GetItem.lean`
(end-to-end `getitem = Py.getitem`). This module collects them. -/
