import NpsVerif.Model.Index
import NpsVerif.Gen.Bridge.col_slice_slice
import NpsVerif.Gen.Bridge.col_slice_int
namespace Props.C02
theorem placeholder : True := trivial
end Props.C02
