import NpsVerif.Model.RunLength2d
import NpsVerif.Props.C17A
import NpsVerif.Proofs.RL2ColRangeD
/-!
# Property C17 (part C): column ranges `rl[rows, start:stop:step]` on the ragged variant

The 70-line case analysis of `IndexableMixin._getitem_tuple` (slice branch) + `_step_subset` +
`RunLengthRaggedArray.remove_empty_intervals`, modelled row by row in `Model/RunLength2d.lean`
(`colRangeRow`, `colRange`), decodes — on the property's domain — to CPython's slice of every selected
dense row.  Domain (per selected row of length `L`): the slice is non-empty, and for a negative step the
bounds lie inside the row (`-L ≤ start < L`, `-L ≤ stop`).  Outside this domain the code is NOT right
(counterexamples below) — which is exactly why the property states the restriction.
-/
namespace Props.C17
open Model Model.RL2
variable {α : Type}

/-- the property's domain for one selected row of length `L` -/
def ColRangeDom (L : Nat) (start stop : Option Int) (step : Int) : Prop :=
  0 < Py.sliceLen L start stop step ∧
  (step < 0 → (∀ a, start = some a → -(L : Int) ≤ a ∧ a < L) ∧ (∀ b, stop = some b → -(L : Int) ≤ b))

/-- ONE ROW: the cut-and-step of a valid run-length row is a valid run-length row that decodes to
CPython's slice of the decoded row -/
theorem C17_col_range_row (r : RLA α) (h : r.Valid) (start stop : Option Int) (step : Int) (hs : step ≠ 0)
    (hd : ColRangeDom r.len start stop step) :
    ∃ i v, colRangeRow r.events r.values start stop step = some (i, v) ∧ (RLA.mk i v).Valid ∧
      (RLA.mk i v).decode = Py.slice r.decode start stop step :=
  Proofs.RL2CR.row_spec r h start stop step hs hd.1 hd.2

/-- HEADLINE: `rl[rows, start:stop:step]` on the ragged variant decodes to the slice of every selected
dense row (any row selector other than an integer, any bounds / step in the domain) -/
theorem C17_col_range (r : RL2 α) (hr : LockstepRagged r) (dense : List (List α)) (hd : r.toRows = some dense)
    (sel : RowSel) (hsel : match sel with | .int _ => False | _ => True)
    (start stop : Option Int) (step : Int) (hs : step ≠ 0)
    (srows : List (List α)) (hsr : Py.selectRows dense sel = some srows)
    (hdom : ∀ row ∈ srows, ColRangeDom row.length start stop step) :
    (r.colRange sel start stop step).bind RL2.toRows =
      some (srows.map (fun row => Py.slice row start stop step)) :=
  Proofs.RL2CR.colRange_spec r hr.1 hr.2.1 dense hd sel hsel start stop step hs srows hsr hdom

/-- a refused row selection is refused -/
theorem C17_col_range_refuses (r : RL2 α) (hr : LockstepRagged r) (dense : List (List α)) (hd : r.toRows = some dense)
    (sel : RowSel) (hsel : match sel with | .int _ => False | _ => True)
    (start stop : Option Int) (step : Int) (hsr : Py.selectRows dense sel = none) :
    r.colRange sel start stop step = none :=
  Proofs.RL2CR.colRange_refuses r hr.2.1 dense hd sel hsel start stop step hsr

/-! ## concrete instances -/

def exR : RL2 Nat := fromRagged neN [[0, 1, 2, 3, 4, 5], [7, 7, 8, 8, 9, 9, 3, 3], [4, 4, 4, 6]]

-- `rl[:, 3::-2]`  (the seeded change C17-A broke exactly this)
example : (exR.colRange .all (some 3) none (-2)).bind RL2.toRows = some [[3, 1], [8, 7], [6, 4]] := by decide
-- `rl[::-1, 1:4]`
example : (exR.colRange (.slice none none (some (-1))) (some 1) (some 4) 1).bind RL2.toRows =
    some [[4, 4, 6], [7, 8, 8], [1, 2, 3]] := by decide
-- `rl[:, -3:]`, `rl[:, ::3]`
example : (exR.colRange .all (some (-3)) none 1).bind RL2.toRows = some [[3, 4, 5], [9, 3, 3], [4, 4, 6]] := by decide
example : (exR.colRange .all none none 3).bind RL2.toRows = some [[0, 3], [7, 8, 3], [4, 6]] := by decide
-- the domain premise is satisfiable
example : ColRangeDom 6 (some 3) none (-2) := by
  refine ⟨by decide, fun _ => ⟨fun a h => ?_, fun b h => by cases h⟩⟩
  cases h; decide

/-- outside the domain the code is wrong: an EMPTY slice whose bounds fall into one run
(`[1,1,1][-1:1]` is `[]`) produces a negative boundary (the model refuses; the library builds a
corrupt array) -/
theorem C17_col_range_empty_counterexample :
    colRangeRow [0, 3] [1] (some (-1)) (some 1) 1 = none ∧ Py.slice [1, 1, 1] (some (-1)) (some 1) 1 = [] := by
  decide

/-- outside the domain: a negative step with `start` beyond the row end does not clamp
(`[1,2][5::-1]` is `[2,1]`) -/
theorem C17_col_range_reverse_counterexample :
    colRangeRow [0, 1, 2] [1, 2] (some 5) none (-1) = none ∧ Py.slice [1, 2] (some 5) none (-1) = [2, 1] := by
  decide

end Props.C17
