import NpsVerif.Model.Index
namespace Props.C19
/-- sanity instance; the universally quantified theorems are added as they are proved -/
theorem placeholder : (2 : Nat) ^ 31 = 2147483648 := by decide
end Props.C19
