import NpsVerif.Model.IndexWidth
import NpsVerif.Props.C02
import NpsVerif.Proofs.IndexWidth
/-! Property C19: the 32-bit index configuration — (a) the packed-word row gather agrees with the
pairwise one, (b) geometry and gather-index builder values fit a signed 32-bit index. -/
open Model Model.W32

namespace Props.C19

/-- (a) the two row-gather paths agree: packing (start, length) pairs below 2^32 into words, selecting
words and unpacking equals selecting the pairs — for every row selector (int, slice of any step, index
list with negatives, boolean mask, all) incl. refusals -/
theorem C19_index_rows_paths_agree (codes : List (Nat × Nat)) (h : ∀ c ∈ codes, c.1 < B32 ∧ c.2 < B32)
    (sel : RowSel) : indexRows32 codes sel = indexRows codes sel :=
  indexRows32_eq codes (fun c hc => (h c hc).1) sel

/-- pack / unpack round trip -/
theorem C19_unpack_pack (codes : List (Nat × Nat)) (h : ∀ c ∈ codes, c.1 < B32 ∧ c.2 < B32) :
    unpack64 (pack64 codes) = codes :=
  unpack_pack codes (fun c hc => (h c hc).1)

/-- `build_indices` is the cumulative sum of `indexBuilder` (the model of C02 restated through the
intermediate array whose entries must fit the index dtype) -/
theorem C19_builder_cumsum (step : Int) (vrows : List (Int × Int × Nat)) :
    buildIndices step vrows = (Np.cumsum (indexBuilder step vrows)).dropLast :=
  indexBuilder_cumsum step vrows

/-- (b) no overflow, geometry: with `size + 1 < 2^31` every start, end and length of a contiguous
shape fits a signed 32-bit index -/
theorem C19_geometry_fits (ls : List Nat) (h : (ls.sum : Int) + 1 < 2 ^ 31) :
    ∀ c ∈ (Shape.ofLens ls).codes, Fits32 c.1 ∧ Fits32 c.2 ∧ Fits32 ((c.1 + c.2 : Nat) : Int) := by
  intro c hc
  have hb := ofLens_codes_bound ls c hc
  unfold Fits32
  refine ⟨⟨?_, ?_⟩, ⟨?_, ?_⟩, ⟨?_, ?_⟩⟩ <;> omega

/-- (b) no overflow, gather-index builder for a row selection of a shape (the view's rows are rows
of a buffer of `size < 2^31 - 1` cells, step 1): every stored increment and every partial sum of the
cumulative sum fits a signed 32-bit index -/
theorem C19_builder_fits (codes : List (Nat × Nat)) (size : Nat) (h : (size : Int) + 1 < 2 ^ 31)
    (hin : ∀ c ∈ codes, c.1 + c.2 ≤ size) (htot : (codes.map (·.2)).sum ≤ size) :
    let vrows := codes.map (fun c => ((c.1 : Int), ((c.1 + c.2 : Nat) : Int), c.2))
    (∀ x ∈ indexBuilder 1 vrows, Fits32 x) ∧ (∀ x ∈ Np.cumsum (indexBuilder 1 vrows), Fits32 x) := by
  intro vrows
  have hv : vrows = (codes.map (fun c => (((c.1 : Int), c.2) : Int × Nat))).map (vrow 1) := by
    simp only [vrows, List.map_map]
    apply List.map_congr_left
    intro c _
    simp only [Function.comp, vrow, rowEnd]
    congr 2
    push_cast
    omega
  have hlens : (codes.map (fun c => (((c.1 : Int), c.2) : Int × Nat))).map (·.2) = codes.map (·.2) := by
    simp [List.map_map, Function.comp]
  by_cases hs : (codes.map (·.2)).sum = 0
  · have : indexBuilder 1 vrows = [] := by
      apply indexBuilder_of_sum_zero
      rw [hv]
      rw [List.map_map, List.map_map]
      exact hs
    rw [this]
    simp [Np.cumsum, Np.cumsumFrom]
  · have hs' : ((codes.map (fun c => (((c.1 : Int), c.2) : Int × Nat))).map (·.2)).sum ≠ 0 := by rw [hlens]; exact hs
    rw [hv, indexBuilder_vrow 1 _ hs']
    have hsize : 0 ≤ (1 : Int) ∧ (1 : Int) ≤ (size : Int) := by omega
    have hR : ∀ r ∈ (codes.map (fun c => (((c.1 : Int), c.2) : Int × Nat))).filter (·.2 != 0),
        0 < r.2 ∧ 0 ≤ r.1 ∧ r.1 + (r.2 : Int) ≤ (size : Int) := by
      intro r hr
      obtain ⟨hr1, hr2⟩ := List.mem_filter.mp hr
      obtain ⟨c, hc, rfl⟩ := List.mem_map.mp hr1
      have := hin c hc
      simp at hr2
      simp only
      omega
    constructor
    · intro x hx
      apply fits32_of_bounds size h
      rw [List.mem_append] at hx
      rcases hx with hx | hx
      · exact builderFrom_entries size 1 _ hsize hR x hx
      · simp at hx; omega
    · intro x hx
      have := builderFrom_cumsum size 1 _ hsize hR x (by simpa [Np.cumsum] using hx)
      apply fits32_of_bounds size h
      omega

/-! ### instances -/

/- a reversed stepped slice and a mask selector through both paths (an empty row in the middle) -/
example : indexRows32 [(0, 2), (2, 0), (2, 3)] (.slice none none (some (-2))) = some [(2, 3), (0, 2)] ∧
    indexRows [(0, 2), (2, 0), (2, 3)] (.slice none none (some (-2))) = some [(2, 3), (0, 2)] ∧
    indexRows32 [(0, 2), (2, 0), (2, 3)] (.mask [true, false, true]) = some [(0, 2), (2, 3)] ∧
    indexRows [(0, 2), (2, 0), (2, 3)] (.mask [true, false, true]) = some [(0, 2), (2, 3)] ∧
    indexRows32 [(0, 2), (2, 0), (2, 3)] (.mask [true, false]) = none ∧
    indexRows32 [(0, 2), (2, 0), (2, 3)] (.slice none none (some 0)) = none ∧
    indexRows32 [(0, 2), (2, 0), (2, 3)] (.list [-1, 0]) = some [(2, 3), (0, 2)] ∧
    indexRows32 [(0, 2), (2, 0), (2, 3)] (.int (-3)) = some [(0, 2)] ∧
    indexRows32 [(0, 2), (2, 0), (2, 3)] (.int 3) = none := by decide

/- the hypothesis matters: a start ≥ 2^32 spills into the length half of the word -/
example : unpack64 (pack64 [(2 ^ 32, 0)]) = [(0, 1)] ∧ unpack64 (pack64 [(2 ^ 32, 0)]) ≠ [(2 ^ 32, 0)] := by
  decide

example : indexRows32 [(2 ^ 32, 0)] .all ≠ indexRows [(2 ^ 32, 0)] .all := by decide

/- the builder and its cumulative sum on a selection with an empty row, rows out of order -/
example : indexBuilder 1 (([(2, 3), (2, 0), (0, 2)] : List (Nat × Nat)).map
      (fun c => ((c.1 : Int), ((c.1 + c.2 : Nat) : Int), c.2))) = [2, 1, 1, -4, 1, 1] ∧
    Np.cumsum (indexBuilder 1 (([(2, 3), (2, 0), (0, 2)] : List (Nat × Nat)).map
      (fun c => ((c.1 : Int), ((c.1 + c.2 : Nat) : Int), c.2)))) = [2, 3, 4, 0, 1, 2] := by decide

/- geometry of a small shape -/
example : (Shape.ofLens [2, 0, 3]).codes = [(0, 2), (2, 0), (2, 3)] := by decide

end Props.C19
