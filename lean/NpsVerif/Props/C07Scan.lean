import NpsVerif.Model.Scan
import NpsVerif.Spec.Rows
import NpsVerif.Proofs.ScanRows
import NpsVerif.Proofs.DiffRows
/-!
# Property C07, scan part: `cumsum`, `_row_accumulate` (add / subtract / xor), `diff`

`RA.ofRows rows` is the array built from the rows.  Every theorem quantifies over all lists of
rows (empty rows anywhere, zero rows, all rows empty).  Helper lemmas: `Proofs/ScanRows.lean`
(locality of the global scan + the `INVERSE_FUNCS` repair) and `Proofs/DiffRows.lean`.
-/
open Model

namespace Props.C07
variable {α : Type}

/-- cumsum restarts at every row -/
theorem C07_cumsum (rows : List (List Int)) :
    (cumsumRows (RA.ofRows rows)).rows = rows.map Spec.prefixSums :=
  Proofs.ScanRows.cumsumRows_ofRows rows

/-- `np.add.accumulate` -/
theorem C07_accumulate_add (rows : List (List Int)) :
    (rowAccumulate (· + ·) (· - ·) (· + ·) (RA.ofRows rows)).rows = rows.map (Spec.accumulate (· + ·)) :=
  Proofs.ScanRows.rowAccumulate_ofRows (· + ·) (· - ·) (· + ·)
    (fun C x => by show C + (x - C) = x; omega)
    (fun C x l => Proofs.ScanRows.add_repair C x l)
    (fun x => ⟨0, by show 0 + x = x; omega⟩) rows

/-- `np.subtract.accumulate` -/
theorem C07_accumulate_sub (rows : List (List Int)) :
    (rowAccumulate (· - ·) (· - ·) (· + ·) (RA.ofRows rows)).rows = rows.map (Spec.accumulate (· - ·)) :=
  Proofs.ScanRows.rowAccumulate_ofRows (· - ·) (· - ·) (· + ·)
    (fun C x => by show C + (x - C) = x; omega)
    (fun C x l => Proofs.ScanRows.sub_repair C x l)
    (fun x => ⟨2 * x, by show 2 * x - x = x; omega⟩) rows

/-- FIXED-WIDTH WRAP-AROUND: `np.add.accumulate` / `np.subtract.accumulate` keep the array's dtype, so the global
scan and the repair by the inverse operation run in arithmetic modulo `2^w` (int8 … uint64 are `BitVec w` up to the
reading of the top bit); the trick is valid there as well, for every width -/
theorem C07_accumulate_add_wrap (w : Nat) (rows : List (List (BitVec w))) :
    (rowAccumulate (· + ·) (· - ·) (· + ·) (RA.ofRows rows)).rows = rows.map (Spec.accumulate (· + ·)) :=
  Proofs.ScanRows.rowAccumulate_ofRows (· + ·) (· - ·) (· + ·)
    (fun C x => by show C + (x - C) = x; rw [BitVec.add_comm, BitVec.sub_add_cancel])
    (fun C x l => Proofs.ScanRows.bv_add_repair w C x l)
    (fun x => ⟨0, by show 0 + x = x; exact BitVec.zero_add x⟩) rows

theorem C07_accumulate_sub_wrap (w : Nat) (rows : List (List (BitVec w))) :
    (rowAccumulate (· - ·) (· - ·) (· + ·) (RA.ofRows rows)).rows = rows.map (Spec.accumulate (· - ·)) :=
  Proofs.ScanRows.rowAccumulate_ofRows (· - ·) (· - ·) (· + ·)
    (fun C x => by show C + (x - C) = x; rw [BitVec.add_comm, BitVec.sub_add_cancel])
    (fun C x l => Proofs.ScanRows.bv_sub_repair w C x l)
    (fun x => ⟨x + x, by show x + x - x = x; exact BitVec.add_sub_cancel x x⟩) rows

/-- `np.bitwise_xor.accumulate`, for any XOR-like type of bit patterns -/
theorem C07_accumulate_xor [XorLike α] (rows : List (List α)) :
    (rowAccumulate XorLike.xor XorLike.xor XorLike.xor (RA.ofRows rows)).rows =
      rows.map (Spec.accumulate XorLike.xor) :=
  Proofs.ScanRows.rowAccumulate_ofRows XorLike.xor XorLike.xor XorLike.xor
    (fun C x => Proofs.ScanRows.xor_repair_head C x)
    (fun C x l => Proofs.ScanRows.xor_repair C x l)
    (fun x => ⟨XorLike.zero, XorLike.zero_xor x⟩) rows

/-- the scans keep the shape (row count, order, empty rows) -/
theorem C07_scan_shape (rows : List (List Int)) :
    (cumsumRows (RA.ofRows rows)).shape = (RA.ofRows rows).shape ∧
    (rowAccumulate (· + ·) (· - ·) (· + ·) (RA.ofRows rows)).shape = (RA.ofRows rows).shape := by
  constructor
  · unfold cumsumRows; split <;> rfl
  · unfold rowAccumulate; split <;> rfl

/-- n-th order differences of each row (empty when the row is too short) -/
theorem C07_diff (n : Nat) (rows : List (List Int)) :
    diffRows n (RA.ofRows rows) = some (rows.map (Spec.diffN n)) :=
  Proofs.DiffRows.diffRows_ofRows n rows

/-! ## non-vacuity: concrete instances, evaluated on the model (left) and on the spec (right) -/

/- wrap-around in uint8: 200 + 100 = 44 (mod 256), the second row starts afresh although the global scan has wrapped -/
example : (rowAccumulate (· + ·) (· - ·) (· + ·) (RA.ofRows [[200#8, 100#8], [], [255#8, 1#8, 7#8]])).rows =
    [[200#8, 44#8], [], [255#8, 0#8, 7#8]] := by decide

/- empty rows in the middle and at the end (the trailing one reads its offset at a clamped
position) -/
example : (cumsumRows (RA.ofRows ([[1, 2], [], [3, 4, 5], []] : List (List Int)))).rows = [[1, 3], [], [3, 7, 12], []] ∧
    [[1, 2], [], [3, 4, 5], []].map Spec.prefixSums = [[1, 3], [], [3, 7, 12], []] := by decide

example : (rowAccumulate (· + ·) (· - ·) (· + ·) (RA.ofRows ([[1, 2], [], [3, 4, 5], []] : List (List Int)))).rows
      = [[1, 3], [], [3, 7, 12], []] ∧
    [[1, 2], [], [3, 4, 5], []].map (Spec.accumulate (fun (a b : Int) => a + b))
      = [[1, 3], [], [3, 7, 12], []] := by decide

example : (rowAccumulate (· - ·) (· - ·) (· + ·) (RA.ofRows ([[1, 2], [], [3, 4, 5], []] : List (List Int)))).rows
      = [[1, -1], [], [3, -1, -6], []] ∧
    [[1, 2], [], [3, 4, 5], []].map (Spec.accumulate (fun (a b : Int) => a - b))
      = [[1, -1], [], [3, -1, -6], []] := by decide

example : (rowAccumulate XorLike.xor XorLike.xor XorLike.xor
      (RA.ofRows [[true, true], [], [true, false, true], []])).rows
      = [[true, false], [], [true, true, false], []] ∧
    [[true, true], [], [true, false, true], []].map (Spec.accumulate (XorLike.xor : Bool → Bool → Bool))
      = [[true, false], [], [true, true, false], []] := by decide

/- leading empty row -/
example : (cumsumRows (RA.ofRows ([[], [4, -1], [2]] : List (List Int)))).rows = [[], [4, 3], [2]] ∧
    (rowAccumulate (· - ·) (· - ·) (· + ·) (RA.ofRows ([[], [4, -1], [2]] : List (List Int)))).rows = [[], [4, 5], [2]] := by
  decide

/- all rows empty / no rows -/
example : (cumsumRows (RA.ofRows ([[], [], []] : List (List Int)))).rows = [[], [], []] ∧
    (rowAccumulate (· + ·) (· - ·) (· + ·) (RA.ofRows ([[], [], []] : List (List Int)))).rows = [[], [], []] ∧
    (rowAccumulate (· - ·) (· - ·) (· + ·) (RA.ofRows ([[], [], []] : List (List Int)))).rows = [[], [], []] ∧
    (rowAccumulate XorLike.xor XorLike.xor XorLike.xor (RA.ofRows ([[], [], []] : List (List Bool)))).rows
      = [[], [], []] ∧
    (cumsumRows (RA.ofRows ([] : List (List Int)))).rows = [] ∧
    diffRows 2 (RA.ofRows ([[], [], []] : List (List Int))) = some [[], [], []] ∧
    diffRows 1 (RA.ofRows ([] : List (List Int))) = some [] := by decide

/- shape -/
example : (cumsumRows (RA.ofRows ([[1, 2], [], [3, 4, 5], []] : List (List Int)))).shape = ⟨[(0, 2), (2, 0), (2, 3), (5, 0)]⟩ ∧
    (RA.ofRows ([[1, 2], [], [3, 4, 5], []] : List (List Int))).shape = ⟨[(0, 2), (2, 0), (2, 3), (5, 0)]⟩ := by
  decide

/- diff: n = 1, n = 2 (rows shorter than n give empty rows; the trailing rows start past the
differenced buffer), n = 0 -/
example : diffRows 1 (RA.ofRows ([[1, 2], [], [3, 4, 5], []] : List (List Int))) = some [[1], [], [1, 1], []] ∧
    diffRows 2 (RA.ofRows ([[1, 2], [], [3, 4, 5], []] : List (List Int))) = some [[], [], [0], []] ∧
    [[1, 2], [], [3, 4, 5], []].map (Spec.diffN 2) = [[], [], [0], []] ∧
    diffRows 2 (RA.ofRows ([[1, 4, 9, 16], [7], [2, 0, 5]] : List (List Int))) = some [[2, 2], [], [7]] ∧
    [[1, 4, 9, 16], [7], [2, 0, 5]].map (Spec.diffN 2) = [[2, 2], [], [7]] ∧
    diffRows 0 (RA.ofRows ([[1, 2], [], [3]] : List (List Int))) = some [[1, 2], [], [3]] := by decide

end Props.C07
