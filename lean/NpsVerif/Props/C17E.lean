import NpsVerif.Model.RunLength2dAny
import NpsVerif.Props.C17A
import NpsVerif.Proofs.RL2ColAnyMain
/-!
# Property C17 (part E): `any(axis=0)` of the matrix variant (`_col_any`)

The sweep over the independently sorted starts and ends of the True runs of all rows yields the union of
the True intervals: column `c` of the result is True iff some row is True at column `c`.

Proofs: `NpsVerif/Proofs/RL2ColAnySort.lean` (insertion sort, `cummax`, counting in sorted lists),
`RL2ColAnyRow.lean` (one row: `#{starts ≤ c} − #{ends ≤ c}` = the row's value at `c`), `RL2ColAnyBuild.lean`
(mask / filter / interleave as a structural recursion), `RL2ColAnySweep.lean` (the sweep is correct),
`RL2ColAnyMain.lean` (all rows together).
-/
namespace Props.C17
open Model Model.RL2

/-- `any(axis=0)`: a valid run-length array over the `L` columns whose cell `c` is the disjunction of
column `c` over all rows (zero rows: all False) -/
theorem C17_col_any (r : RL2 Bool) (L : Nat) (hL : r.rowLen = some L) (hpos : 1 ≤ L)
    (dense : List (List Bool)) (hd : r.toRows = some dense) (hl : r.indices.length = r.values.length) :
    ∃ res, r.colAny = some res ∧ res.Valid ∧
      res.decode = (List.range L).map (fun c => dense.any (fun row => row[c]? == some true)) := by
  exact Proofs.RL2ColAny.col_any_spec r L hL hpos dense hd hl

def neB (x y : Bool) : Bool := x != y

-- rows 0110 / 0011 / 0000  ->  0111 ; touching and nested intervals ; no row at all
example : ((fromMatrix neB [[false, true, true, false], [false, false, true, true], [false, false, false, false]] 4).colAny).map RLA.decode
    = some [false, true, true, true] := by decide
example : ((fromMatrix neB [[true, true, false, false, false], [false, false, true, false, true], [true, false, false, false, false]] 5).colAny).map RLA.decode
    = some [true, true, true, false, true] := by decide
example : ((fromMatrix neB [] 3).colAny).map RLA.decode = some [false, false, false] := by decide
example : ((fromMatrix neB [[true, true], [true, true]] 2).colAny) = some ⟨[0, 2], [true]⟩ := by decide

end Props.C17
