import NpsVerif.Props.C05
/-!
# Property C05, continued — every row is folded from the ufunc's identity

numpy's `ufunc.reduce(row)` is the left fold of the row **starting from the identity** `e`; `ufunc.reduceat` folds a
segment from its first cell.  The two differ whenever `op e x ≠ x` (`gcd 0 (-4) = 4`, `hypot 0 (-3) = 3`,
`0.0 + -0.0 = 0.0`): finding F05h.  The repaired `_reduce` combines `e` with every row's `reduceat` result; for an
ASSOCIATIVE `op` (nothing else is assumed — `e` need not be neutral) that is numpy's fold, for every placement of
empty rows.
-/
namespace Props.C05
open Model
variable {α : Type}

theorem op_seg1 (op : α → α → α) (hassoc : ∀ a b c, op (op a b) c = op a (op b c)) (e : α) (he : op e e = e)
    (row : List α) : op e (seg1 op e row) = row.foldl op e := by
  cases row with
  | nil => simpa [seg1] using he
  | cons x xs =>
    simp only [seg1, List.foldl_cons]
    induction xs generalizing x with
    | nil => rfl
    | cons y ys ih =>
      simp only [List.foldl_cons]
      rw [ih (op x y), hassoc]

/-- row reductions of a ufunc with an identity: every row, empty or not, wherever it stands, gets numpy's
`reduce` of that row (the left fold from the identity), for every associative `op` with `op e e = e` -/
theorem C05_reduce_from_identity (op : α → α → α) (hassoc : ∀ a b c, op (op a b) c = op a (op b c)) (e : α)
    (he : op e e = e) (rows : List (List α)) :
    reduceRowsFold op e (RA.ofRows rows) = some (rows.map (List.foldl op e)) := by
  unfold reduceRowsFold
  have h := C05_reduce_identity (seg1 op e) e rows
  have hnil : seg1 op e [] = e := rfl
  rw [hnil] at h
  rw [h]
  simp only [Option.map_some, List.map_map, Option.some.injEq]
  apply List.map_congr_left
  intro row _
  exact op_seg1 op hassoc e he row

/-- F05h: without the final `op e`, a one-cell row comes back as the cell itself — not numpy's fold when `op e x ≠ x` -/
theorem C05_F05h_reduceat_alone_differs :
    let g : Int → Int → Int := fun a b => (Int.gcd a b : Int)
    reduceRows (seg1 g 0) (some 0) 0 (RA.ofRows [[-4], [6, -9]]) = some [-4, 3] ∧
    reduceRowsFold g 0 (RA.ofRows [[-4], [6, -9]]) = some [4, 3] ∧
    [[-4], [6, -9]].map (List.foldl g 0) = [4, 3] := by decide

/- non-vacuity: `Int.gcd` is associative and `gcd 0 0 = 0`; empty rows in every position -/
example : reduceRowsFold (fun a b => (Int.gcd a b : Int)) 0 (RA.ofRows [[], [-4], [], [6, -9], []]) = some [0, 4, 0, 3, 0] := by decide

end Props.C05
