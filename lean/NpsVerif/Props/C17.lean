import NpsVerif.Model.RunLength2d
namespace Props.C17
open Model Model.RL2
/-- sanity instance; the universally quantified theorems are added as they are proved -/
theorem fromRagged_example : (fromRagged (fun (x y : Nat) => x != y) [[1, 1, 2], [2], [2, 2, 1, 1]]).toRows = some [[1, 1, 2], [2], [2, 2, 1, 1]] := by decide
end Props.C17
