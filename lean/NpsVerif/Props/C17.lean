import NpsVerif.Props.C17A
import NpsVerif.Props.C17B
/-! Property C17: theorems in `Props/C17A.lean` (constructors, row selection, elements, integer columns,
row reductions, ufuncs) and `Props/C17B.lean` (ravel, concatenate, column counts, column sums). -/
