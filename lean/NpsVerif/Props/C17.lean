import NpsVerif.Props.C17A
import NpsVerif.Props.C17B
import NpsVerif.Props.C17C
import NpsVerif.Props.C17D
import NpsVerif.Props.C17E
/-! Property C17: theorems in `Props/C17A.lean` (constructors, row selection, elements, integer columns,
row reductions, ufuncs), `Props/C17B.lean` (ravel, concatenate, column counts, column sums) and
`Props/C17C.lean` (column ranges on the ragged variant). -/
