import NpsVerif.Props.C11
/-! The C11 statements the C12 proofs build on are proved in `Props/C11.lean`. -/
