import NpsVerif.Model.BitArray
namespace Props.C13
open Model.BitArray
/-- sanity instance (the universally quantified theorems are added below as they are proved) -/
theorem stream_example : stream 2 [1, 3, 2] = 1 + 4 * (3 + 4 * 2) := by decide
end Props.C13
