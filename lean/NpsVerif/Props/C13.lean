import NpsVerif.Model.BitArray
import NpsVerif.Proofs.BitOps
/-!
# C13: `BitArray` — pack / unpack / getitem / sliding_window against ONE number

The specification is `stream b a = Σ a[i]·2^(b·i)`. Proofs are in `NpsVerif/Proofs/Bits.lean`
(stream arithmetic), `NpsVerif/Proofs/BitPack.lean` (the `|=` loop of `pack`) and
`NpsVerif/Proofs/BitOps.lean` (unpack, getitem, sliding window). Each theorem is followed by a
closed instance checked by `decide` (non-vacuity).
-/
namespace Props.C13
open Model.BitArray

/-- sanity instance of the specification function -/
theorem stream_example : stream 2 [1, 3, 2] = 1 + 4 * (3 + 4 * 2) := by decide

/-- the registers of `pack a b` are the consecutive 64-bit slices of the single number
`stream b a = Σ a[i]·2^(b·i)` (including the partial last register) -/
theorem C13_pack (a : List Nat) (b : Nat) (hb0 : 0 < b) (hb : b ∣ 64) (ha : ∀ x ∈ a, x < 2 ^ b) :
    pack a b = (List.range ((a.length + 64 / b - 1) / (64 / b))).map
      (fun r => (stream b a >>> (64 * r)) % 2 ^ 64) :=
  Proofs.BitOps.pack_regs a b hb0 hb ha

-- b = 32, three entries: two registers, the second one partial
example : pack [0xDEADBEEF, 0x12345678, 0xCAFEF00D] 32 = [0x12345678DEADBEEF, 0xCAFEF00D] := by decide
example : (List.range ((3 + 64 / 32 - 1) / (64 / 32))).map
    (fun r => (stream 32 [0xDEADBEEF, 0x12345678, 0xCAFEF00D] >>> (64 * r)) % 2 ^ 64)
    = [0x12345678DEADBEEF, 0xCAFEF00D] := by decide
-- b = 2, 35 entries: 32 per register, 3 in the partial second register
example : pack ((List.range 35).map (· % 4)) 2
    = (List.range ((35 + 64 / 2 - 1) / (64 / 2))).map
        (fun r => (stream 2 ((List.range 35).map (· % 4)) >>> (64 * r)) % 2 ^ 64) := by decide
example : (pack ((List.range 35).map (· % 4)) 2).length = 2 := by decide

/-- packing is lossless: same values, same order, same number -/
theorem C13_unpack_pack (a : List Nat) (b : Nat) (hb0 : 0 < b) (hb : b ∣ 64) (ha : ∀ x ∈ a, x < 2 ^ b) :
    unpack (pack a b) b a.length = a :=
  Proofs.BitOps.unpack_pack a b hb0 hb ha

example : unpack (pack [0xDEADBEEF, 0x12345678, 0xCAFEF00D] 32) 32 3
    = [0xDEADBEEF, 0x12345678, 0xCAFEF00D] := by decide
example : unpack (pack ((List.range 35).map (· % 4)) 2) 2 35 = (List.range 35).map (· % 4) := by decide

/-- integer indexing returns that element -/
theorem C13_getitem (a : List Nat) (b : Nat) (hb0 : 0 < b) (hb : b ∣ 64) (ha : ∀ x ∈ a, x < 2 ^ b)
    (i : Nat) (hi : i < a.length) :
    getitem (pack a b) b i = some a[i] :=
  Proofs.BitOps.getitem_pack a b hb0 hb ha i hi

/-- the same with the addressing arithmetic generated from the CURRENT source (kernel K11, bridged to the
reference kernel on every run): this is the function the driver executes -/
theorem C13_getitem_generated (a : List Nat) (b : Nat) (hb0 : 0 < b) (hb : b ∣ 64) (ha : ∀ x ∈ a, x < 2 ^ b)
    (i : Nat) (hi : i < a.length) :
    getitemK (pack a b) b i = some a[i] := by
  rw [Proofs.BitAddr.getitemK_eq _ b i (Nat.div_pos (Nat.le_of_dvd (by decide) hb) hb0)]
  exact Proofs.BitOps.getitem_pack a b hb0 hb ha i hi

example : getitem (pack [0xDEADBEEF, 0x12345678, 0xCAFEF00D] 32) 32 2 = some 0xCAFEF00D := by decide
example : getitem (pack ((List.range 35).map (· % 4)) 2) 2 34 = some 2 := by decide

/-- indexing with a list of positions returns a packed array of those elements -/
theorem C13_getitem_list (a : List Nat) (b : Nat) (hb0 : 0 < b) (hb : b ∣ 64) (ha : ∀ x ∈ a, x < 2 ^ b)
    (is : List Nat) (his : ∀ i ∈ is, i < a.length) :
    (getitemList (pack a b) b is).map (fun d => unpack d b is.length) = is.mapM (a[·]?) :=
  Proofs.BitOps.getitemList_pack a b hb0 hb ha is his

example : (getitemList (pack [0xDEADBEEF, 0x12345678, 0xCAFEF00D] 32) 32 [2, 0, 2]).map
    (fun d => unpack d 32 3) = some [0xCAFEF00D, 0xDEADBEEF, 0xCAFEF00D] := by decide
example : (getitemList (pack ((List.range 35).map (· % 4)) 2) 2 [34, 33, 1, 31, 32]).map
    (fun d => unpack d 2 5) = some [2, 1, 1, 3, 0] := by decide

/-- `sliding_window(w)[i]` is the integer whose j-th b-bit digit is element `i+j` — whether or not
the window straddles a register boundary -/
theorem C13_sliding_window (a : List Nat) (b : Nat) (hb0 : 0 < b) (hb : b ∣ 64) (ha : ∀ x ∈ a, x < 2 ^ b)
    (w : Nat) (hw : 1 ≤ w) (hwb : w * b ≤ 64) (hwl : w ≤ a.length) :
    slidingWindow (pack a b) b a.length w =
      (List.range (a.length - w + 1)).map (fun i => (stream b a >>> (b * i)) % 2 ^ (w * b)) :=
  Proofs.BitOps.slidingWindow_pack a b hb0 hb ha w hw hwb hwl

-- b = 32, w = 2: the window at position 1 straddles the register boundary
example : slidingWindow (pack [0xDEADBEEF, 0x12345678, 0xCAFEF00D] 32) 32 3 2
    = [0x12345678DEADBEEF, 0xCAFEF00D12345678] := by decide
-- b = 2, w = 5, 35 entries: windows 28..31 straddle the boundary
example : slidingWindow (pack ((List.range 35).map (· % 4)) 2) 2 35 5
    = (List.range 31).map (fun i => (stream 2 ((List.range 35).map (· % 4)) >>> (2 * i)) % 2 ^ 10) := by
  decide
example : (slidingWindow (pack ((List.range 35).map (· % 4)) 2) 2 35 5)[30]? = some 0b1001001110 := by
  decide

/-- digits of the stream: the j-th b-bit digit of window i is element i+j -/
theorem C13_stream_digit (a : List Nat) (b : Nat) (ha : ∀ x ∈ a, x < 2 ^ b) (i : Nat) (hi : i < a.length) :
    (stream b a >>> (b * i)) % 2 ^ b = a[i] :=
  Proofs.Bits.stream_digit b a ha i hi

example : (stream 2 [1, 3, 2] >>> (2 * 1)) % 2 ^ 2 = 3 := by decide
example : (stream 32 [0xDEADBEEF, 0x12345678, 0xCAFEF00D] >>> (32 * 2)) % 2 ^ 32 = 0xCAFEF00D := by decide

end Props.C13
