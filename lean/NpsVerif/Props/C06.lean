import NpsVerif.Model.Heap
namespace Props.C06
open Model Model.Heap
/-- sanity instance; the universally quantified theorems are added as they are proved -/
theorem alias_example : run init [.new [[1, 2], []], .alias 0, .assign 1 (.rowcol (.int 0) (.int 0)) (.scalar 9), .read 0] =
    [.made true, .made true, .made true, .rows (some [[9, 2], []])] := by decide
end Props.C06
