import NpsVerif.Model.Heap
import NpsVerif.Proofs.HeapSim
import NpsVerif.Proofs.HeapReads
/-!
# Property C06: derived arrays behave like fresh ones

The heap model (flat buffers + shapes; selections own a new buffer, `x[...]` shares one, assignment
writes the shared buffer) produces, for every straight-line program, the same observations as the
reference semantics in which every variable denotes a cell of plain rows.  The simulation relation and
the step lemma are in `Proofs/HeapSim.lean`; they use the per-operation theorems C01–C04, C07, C08.
-/
namespace Props.C06
open Model Model.Heap

/-- sanity instance -/
theorem alias_example : run init [.new [[1, 2], []], .alias 0, .assign 1 (.rowcol (.int 0) (.int 0)) (.scalar 9), .read 0] =
    [.made true, .made true, .made true, .rows (some [[9, 2], []])] := by decide

/-- HEADLINE: for EVERY straight-line program, the observation trace of the heap model (flat buffers +
shapes, selections own a new buffer, aliases share one, assignment writes the shared buffer) equals the
trace under the reference semantics where every variable denotes a cell holding plain rows. -/
theorem C06_program (prog : List Stmt) : run init prog = runS initS prog :=
  Proofs.HeapSim.sim_run Proofs.HeapSim.sim_init prog

/-- sanity instance: `np.unique` gives an array of its own -- a later write into the source does not reach it
(also when no row has more than one cell, where the result holds the same rows as the source) -/
theorem unique_example : run init [.new [[3, 1, 3], [], [2]], .unique 0, .new [[5], []], .unique 2,
      .assign 0 (.rowcol (.int 0) (.int 0)) (.scalar 9), .assign 2 (.rowcol (.int 0) (.int 0)) (.scalar 9), .read 1, .read 3] =
    [.made true, .made true, .made true, .made true, .made true, .made true,
     .rows (some [[1, 3], [], [2]]), .rows (some [[5], []])] := by
  rw [C06_program]
  simp [runS, stepS, stepNewS, initS, Store.alloc, Store.val, Store.var, Spec.dedupCounts, List.mergeSort]
  decide


/-- reference semantics: every creating statement other than `alias` puts its result in a FRESH cell -/
theorem C06_fresh_cell (s : Store) (st : Stmt) (hc : match st with
      | .new _ | .select _ _ | .addScalar _ _ | .addArrays _ _ | .concat _ _ | .sort _ | .cumsum _ | .diff _ | .unique _ => True
      | _ => False)
    (hok : (stepS s st).2 = .made true) :
    (stepS s st).1.vars = s.vars ++ [some s.cells.length] ∧ (stepS s st).1.cells.length = s.cells.length + 1 := by
  cases st with
  | alias _ | assign _ _ _ | read _ | readIdx _ _ | readSum _ | poke _ _ _ => exact absurd hc id
  | _ => exact Proofs.HeapReads.stepNewS_made s _ hok

/-- assigning into an array never alters an array that lives in a different cell — in particular
assigning into a derived array never alters the array it was derived from -/
theorem C06_assign_frame (s : Store) (x y : Nat) (idx : Index) (v : Value Int)
    (hne : s.var x ≠ s.var y) : (stepS s (.assign x idx v)).1.val y = s.val y :=
  Proofs.HeapReads.assign_frame s x y idx v hne

/-- the same for a write through the flat view / through the numpy array an array was constructed over -/
theorem C06_poke_frame (s : Store) (x y k : Nat) (v : Int)
    (hne : s.var x ≠ s.var y) : (stepS s (.poke x k v)).1.val y = s.val y :=
  Proofs.HeapReads.poke_frame s x y k v hne

/-- `a[...]` is an alias: it denotes the same cell, so a write through either is seen through both -/
theorem C06_alias_shares (s : Store) (x : Nat) (hx : (s.var x).isSome) :
    (stepS s (.alias x)).1.var s.vars.length = s.var x :=
  Proofs.HeapReads.alias_shares s x hx

/-! ## non-vacuity: whole programs, evaluated on the heap model and on the reference store -/

/- selection, then a write to the SOURCE, then a read of the selection: the selection owns its data and
still reads `[[], [4,5,6]]`; the source shows the write -/
example : run init [.new [[0,1,2,3],[],[4,5,6],[7]], .select 0 (.rows (.slice (some 1) (some 3) none)),
      .assign 0 (.rows (.int 2)) (.scalar 99), .read 1, .read 0] =
    [.made true, .made true, .made true, .rows (some [[], [4,5,6]]),
      .rows (some [[0,1,2,3],[],[99,99,99],[7]])] := by decide

example : runS initS [.new [[0,1,2,3],[],[4,5,6],[7]], .select 0 (.rows (.slice (some 1) (some 3) none)),
      .assign 0 (.rows (.int 2)) (.scalar 99), .read 1, .read 0] =
    [.made true, .made true, .made true, .rows (some [[], [4,5,6]]),
      .rows (some [[0,1,2,3],[],[99,99,99],[7]])] := by decide

/- a write into the SELECTION does not reach the source -/
example : run init [.new [[0,1,2,3],[],[4,5,6],[7]], .select 0 (.rows (.slice (some 1) (some 3) none)),
      .assign 1 (.rows (.int 1)) (.scalar 99), .read 0, .read 1] =
    [.made true, .made true, .made true, .rows (some [[0,1,2,3],[],[4,5,6],[7]]),
      .rows (some [[], [99,99,99]])] := by decide

/- an alias DOES see the write (both directions), and a selection taken from the alias before the
write does not -/
example : run init [.new [[0,1,2,3],[],[4,5,6],[7]], .alias 0, .select 1 (.rows (.slice (some 1) (some 3) none)),
      .assign 0 (.rows (.int 2)) (.scalar 99), .read 1, .assign 1 (.rowcol (.int 0) (.int 0)) (.scalar (-1)),
      .read 0, .read 2] =
    [.made true, .made true, .made true, .made true, .rows (some [[0,1,2,3],[],[99,99,99],[7]]),
      .made true, .rows (some [[-1,1,2,3],[],[99,99,99],[7]]), .rows (some [[], [4,5,6]])] := by decide

/- a refused creation leaves a hole: later uses of the missing variable are refused / read `none`,
the numbering of the following variables is unaffected; derived arrays (ufunc, concatenate, cumsum,
diff) are fresh -/
example : run init [.new [[1,2],[3]], .new [[10],[20,30]], .addArrays 0 1, .read 2, .addScalar 0 5,
      .concat 0 3, .cumsum 4, .diff 5, .assign 3 (.rows (.int 0)) (.scalar 0), .read 4, .read 5, .read 6,
      .readSum 3, .readIdx 0 (.rowcol (.int 1) (.int 0))] =
    [.made true, .made true, .made false, .rows none, .made true,
      .made true, .made true, .made true, .made true, .rows (some [[1,2],[3],[6,7],[8]]),
      .rows (some [[1,3],[3],[6,13],[8]]), .rows (some [[2],[],[7],[]]),
      .sums (some [0, 8]), .res (some (.scalar 3))] := by decide

/- a write through the flat view (`x.ravel()[k] = v`, or through the numpy array `x` was constructed
over) is seen by `x` and its aliases, not by arrays derived from `x` before it; position 3 of
`[[1,2],[],[3,4]]` is cell (2,1); a position past the end is refused -/
example : run init [.new [[1,2],[],[3,4]], .select 0 (.rows (.slice none none (some (-1)))), .alias 0,
      .poke 0 3 9, .read 0, .read 1, .read 2, .poke 1 0 7, .read 1, .read 0, .poke 0 4 5] =
    [.made true, .made true, .made true, .made true, .rows (some [[1,2],[],[3,9]]),
      .rows (some [[3,4],[],[1,2]]), .rows (some [[1,2],[],[3,9]]), .made true,
      .rows (some [[7,4],[],[1,2]]), .rows (some [[1,2],[],[3,9]]), .made false] := by decide

end Props.C06
