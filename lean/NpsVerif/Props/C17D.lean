import NpsVerif.Model.RunLength2dArg
import NpsVerif.Props.C17A
import NpsVerif.Props.C05B
import NpsVerif.Proofs.RL2Argmax
/-!
# Property C17 (part D): `argmax(axis=-1)` of the ragged run-length array

The first run holding the row maximum starts at the first position of that maximum in the decoded row.
-/
namespace Props.C17
open Model Model.RL2

/-- `argmax`: one entry per row — the FIRST position of the row's maximum in the decoded row (rows are
non-empty, as the property assumes) -/
theorem C17_argmax (r : RL2 Int) (hr : LockstepRagged r) (dense : List (List Int)) (hd : r.toRows = some dense)
    (hne : ∀ row ∈ dense, row ≠ []) :
    ∃ res, r.argmax = some res ∧ res.length = dense.length ∧
      ∀ (i : Nat) (row : List Int), dense[i]? = some row →
        ∃ j m, res[i]? = some j ∧ row[j]? = some m ∧ (∀ x ∈ row, x ≤ m) ∧
          ∀ k x, k < j → row[k]? = some x → x < m :=
  Proofs.RL2Argmax.argmax_spec r hr.1 hr.2.1 dense hd hne

def neZ (x y : Int) : Bool := x != y

example : (fromRagged neZ [[0, 5, 5, 1, 5], [3, 3, 1], [4]]).argmax = some [1, 0, 0] := by decide
example : (fromRagged neZ [[1, 1, 2, 2, 0], [-3, -1, -1]]).argmax = some [2, 1] := by decide

end Props.C17
