-- Root of the `NpsVerif` library: everything `lake build` must check.
import NpsVerif.Props.C01
import NpsVerif.Props.C02
import NpsVerif.Props.C13
