-- Root of the `NpsVerif` library: everything `lake build` must check.
import NpsVerif.Props.C01
