-- Root of the `NpsVerif` library: everything `lake build` must check.
import NpsVerif.Props.C01
import NpsVerif.Props.C02
import NpsVerif.Props.C13
import NpsVerif.Props.C03
import NpsVerif.Props.C04
import NpsVerif.Props.C05
import NpsVerif.Props.C14
import NpsVerif.Props.C15
import NpsVerif.Props.C16
import NpsVerif.Props.C07
import NpsVerif.Props.C08
import NpsVerif.Props.C09
import NpsVerif.Props.C11
import NpsVerif.Props.C12
import NpsVerif.Props.C06
import NpsVerif.Props.C10
