import Lean
/-!
`lake env lean --run Audit.lean <Module> [<Module> …]`

For every theorem declared in each given module, prints one line
`THEOREM <module> <name> AXIOMS <ax1,ax2,…>` (axioms transitively used, as `#print axioms` computes
them).  The Python side accepts only propext / Classical.choice / Quot.sound.
-/
open Lean

abbrev AM := StateT Environment IO
instance : MonadEnv AM where
  getEnv := get
  modifyEnv f := modify f

unsafe def main (args : List String) : IO UInt32 := do
  initSearchPath (← findSysroot)
  unsafe enableInitializersExecution
  let mods := args.map String.toName
  let env ← importModules (mods.toArray.map fun m => {module := m}) {} (loadExts := true)
  for m in mods do
    let some idx := env.getModuleIdx? m | do
      IO.eprintln s!"unknown module {m}"; return 2
    let md := env.header.moduleData[idx.toNat]!
    for n in md.constNames do
      match env.find? n with
      | some (.thmInfo _) =>
        if n.isInternal then continue
        let (axs, _) ← (collectAxioms n : AM (Array Name)).run env
        let axs := axs.toList.map toString
        IO.println s!"THEOREM {m} {n} AXIOMS {String.intercalate "," axs}"
      | _ => pure ()
  return 0
