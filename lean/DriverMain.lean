import Drv.C01
import Drv.Index
import Drv.C13
import Drv.RL
import Drv.C345
import Drv.C789
import Drv.HT
import Drv.Heap
import Drv.DC
import Drv.RL2
import Drv.NpD
import Drv.KD
open Lean Drv

def dispatch (op : String) (j : Json) : Json :=
  match op with
  | "C01.shape" => C01.shape j
  | "C01.rows" => C01.rows j
  | "C01.flat" => C01.flat j
  | "C02.getitem" => C02.getitem j
  | "C13.all" => C13.all j
  | "C03.setitem" => C03.setitem j
  | "C04.ufunc" => C04.ufunc j
  | "C05.reduce" => C05.reduce j
  | "C05.argred" => C05.argred j
  | "C07.scan" => C07.scan j
  | "C08.struct" => C08.struct j
  | "C09.cols" => C09.cols j
  | "HT.run" => HTd.run j
  | "HT.runx" => HTd.runX j
  | "K.eval" => KD.eval j
  | "K.view" => KD.evalView j
  | "Np.eval" => NpD.eval j
  | "RL2.run" => RL2d.run j
  | "DC.run" => DCd.run j
  | "Heap.run" => HeapD.run j
  | "RL.encode" => RL.encode j
  | "RL.index" => RL.index j
  | "RL.binop" => RL.binop j
  | _ => obj [("error", toJson s!"bad-op {op}")]

def handle (line : String) : String :=
  match Json.parse line with
  | .error e => (obj [("error", toJson s!"bad-json {e}")]).compress
  | .ok j => (dispatch (fldStr j "op") j).compress

partial def loop (h : IO.FS.Stream) : IO Unit := do
  let line ← h.getLine
  if line.isEmpty then return ()
  IO.println (handle line.trimAscii.toString)
  loop h

def main : IO Unit := do loop (← IO.getStdin)
