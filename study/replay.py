"""Evaluation tooling (not a check): replays single-node AST mutants of the CURRENT /repo tree against the
pinned suite and, for those the suite lets through, against the property checks.

    /venv/bin/python study/replay.py [n_workers] [sample_every]

Each worker owns a scratch copy of /repo and a frozen copy of the machinery (/verif/tools, /verif/lean,
known_findings.json: regenerated kernels, rebuilt drivers, evidence and replays never touch the real project), all under /root/scratch/replay (removed
at the end).  Results: study/replay_results.csv (one line per mutant: killed by the suite / detected by which
check / not detected / infra), resumable through /root/scratch/replay/results_w*.jsonl.
"""
import ast, os, sys, json, subprocess, shutil, time
from concurrent.futures import ProcessPoolExecutor

HERE = os.path.dirname(os.path.abspath(__file__))
sys.path.insert(0, HERE)
import mutate  # noqa  (gen_mutants / apply)

VERIF = os.path.dirname(HERE)
SRC = os.environ.get('REPLAY_SRC', '/repo')      # a frozen snapshot of the library (so that /repo can keep changing)
ROOT = os.environ.get('REPLAY_ROOT', '/root/scratch/replay')
ONLY = os.environ.get('REPLAY_ONLY')      # json list of [file, func, kind, variant, source line text]: replay these mutants only

# dead or out-of-scope code (DESIGN section 8): mutants there are equivalent by construction; recorded, not replayed
DEAD = ('simple_build_indices', 'view_cols', '_build_indices', 'c_extract_segments', '__apply_binary_func', '__from_intervals',
        'BitMask', 'stack_with_ragged', '__repr__', '__str__', '.std', 'RaggedShape.__getitem__', 'cupy', 'set_backend',
        '_get_col_reverse', '__get_col_reverse')

RL1 = ('RunLengthArray',)
RL2 = ('RunLength2dArray', 'RunLengthRaggedArray', 'IndexableMixin')


def checks_for(f, fn):
    """ordered list of property checks a mutant of function `fn` in file `f` is replayed against"""
    b = os.path.basename(f)
    if f.endswith('raggedshape.py'):
        last = fn.split('.')[-1]
        if 'broadcast' in last:
            return ['C04', 'C03', 'C12']
        if last in ('_index_rows', 'set_dtype'):
            return ['C19', 'C02', 'C03']
        if last in ('unravel_multi_index', 'ravel_multi_index', 'index_array', 'to_dict', 'from_dict', 'size', 'lengths', 'n_rows',
                    'empty_rows', 'offsets', 'starts', 'ends') or fn in ('RaggedShape.__init__', 'ViewBase.__init__'):
            return ['C01', 'C02', 'C09', 'C05']
        if 'fast' in last:
            return ['C12', 'C11', 'C02']
        return ['C02', 'C03', 'C19', 'C06', 'C12', 'C01']
    if f.endswith('raggedarray/base.py'):
        return ['C06', 'C10', 'C02', 'C03', 'C01']
    if f.endswith('raggedarray/indexablearray.py'):
        if 'subset' == fn.split('.')[-1] or 'column_values' in fn:
            return ['C08', 'C09', 'C02']
        return ['C02', 'C03', 'C06', 'C08']
    if f.endswith('raggedarray/__init__.py'):
        last = fn.split('.')[-1]
        if last in ('__init__', '_from_array_list', 'from_numpy_array', 'to_numpy_array', 'save', 'load', 'tolist', '__iter__', 'astype',
                    'equals', '__len__', 'fill', 'from_array_list', 'ravel', 'lengths', 'dtype', 'size', 'shape', 'to_dict', 'from_dict',
                    'to_numpy_array', '__eq__', '__array_function__'):
            return ['C01', 'C08', 'C06']
        if last in ('__array_ufunc__', '_broadcast_rows', 'reshape'):
            return ['C04', 'C05', 'C07', 'C03']
        if last in ('_reduce', 'reduction', 'prod', 'all', 'any', 'max', 'min', 'argmax', 'argmin', '_first_position_of', 'std'):
            return ['C05', 'C09']
        if last in ('sum', 'mean', 'col_counts', '_col_sum', '_column_indexes'):
            return ['C09', 'C05']
        if last in ('cumsum', 'sort', '_accumulate', 'accumulate'):
            return ['C07', 'C06']
        if last in ('_as_padded_matrix', 'as_padded_matrix', 'nonzero', 'expand_dims'):
            return ['C08']
        return ['C01', 'C04', 'C05', 'C07', 'C08', 'C09']
    if f.endswith('raggedslice.py') or f.endswith('mixin.py'):
        return ['C08', 'C15', 'C17']
    if f.endswith('arrayfunctions.py'):
        last = fn.split('.')[-1]
        if last in ('unique', 'diff'):
            return ['C07', 'C06']
        if last in ('concatenate',):
            return ['C08', 'C06', 'C11']
        return ['C08', 'C07', 'C05', 'C06']
    if f.endswith('hashtable.py'):
        return ['C12', 'C11'] if fn.startswith('Counter') else ['C11', 'C12']
    if f.endswith('bitarray.py'):
        return ['C13']
    if f.endswith('runlengtharray.py'):
        cls = fn.split('.')[0]
        if cls in RL2:
            return ['C17']
        if cls in RL1:
            return ['C14', 'C15', 'C16', 'C17']
        return ['C16', 'C17', 'C14']
    if f.endswith('npdataclasses.py'):
        return ['C18']
    if f.endswith('util.py'):
        return ['C14', 'C16', 'C13', 'C17']
    return []


def run_check(cid, env, timeout=900):
    t = time.time()
    try:
        p = subprocess.run(['/venv/bin/python', os.path.join(env['REPLAY_VERIF'], 'tools', 'check.py'), cid, 'quick'], capture_output=True,
                           text=True, timeout=timeout, env=env, cwd=env['REPLAY_VERIF'])
        out = p.stdout + p.stderr
        rc = p.returncode
    except subprocess.TimeoutExpired:
        return 2, 'timeout', time.time() - t
    return rc, out, time.time() - t


def worker(args):
    wid, jobs, done = args
    wd = f'{ROOT}/w{wid}'
    # a frozen copy of the machinery (tools, Lean project, known findings) per worker: /verif can keep changing meanwhile
    wrepo, wverif = wd + '/repo', wd + '/verif'
    shutil.rmtree(wd, ignore_errors=True)
    os.makedirs(wverif)
    subprocess.run(['rsync', '-a', '--exclude', '.git', '--exclude', 'docs', '--exclude', 'docs_source', '--exclude', 'benchmarks',
                    '--exclude', 'profiling', '--exclude', '__pycache__', SRC + '/', wrepo + '/'], check=True)
    for part in ('lean', 'tools'):
        subprocess.run(['rsync', '-a', '--exclude', '__pycache__', VERIF + '/' + part + '/', wverif + '/' + part + '/'], check=True)
    shutil.copy(VERIF + '/known_findings.json', wverif + '/known_findings.json')
    env = {**os.environ, 'PYTHONDONTWRITEBYTECODE': '1', 'NPS_REPO': wrepo, 'REPLAY_VERIF': wverif}
    env.pop('VERIF_LEAN_DIR', None); env.pop('VERIF_OUT_DIR', None)
    log = open(f'{ROOT}/results_w{wid}.jsonl', 'a')
    only = None if not ONLY else {tuple(x) for x in json.load(open(ONLY))}
    for f, mut in jobs:
        key = f'{f}|{mut[0]}|{mut[1]}|{mut[2]}'
        if key in done:
            continue
        src = open(os.path.join(SRC, f)).read()
        try:
            new, fn, line = mutate.apply(src, mut)
            compile(new, f, 'exec')
        except Exception:
            continue
        if new == ast.unparse(ast.parse(src)):
            continue
        if only is not None and (f, fn, mut[1], mut[2], src.splitlines()[line - 1].strip() if line else '') not in only:
            continue
        rec = {'key': key, 'file': f, 'func': fn, 'line': line, 'kind': mut[1], 'variant': mut[2]}
        open(os.path.join(wrepo, f), 'w').write(new)
        try:
            try:
                p = subprocess.run(['/venv/bin/python', '-m', 'pytest', '-q', '-x', '-p', 'no:cacheprovider', '--timeout=60', 'tests'],
                                   cwd=wrepo, capture_output=True, text=True, timeout=300, env=env)
                survived = (p.returncode == 0)
            except subprocess.TimeoutExpired:
                survived = False
            rec['survived_suite'] = survived
            if survived and any(d in fn for d in DEAD):
                rec['dead_code'] = True
            elif survived:
                rec['checks'] = {}
                rec['detected_by'] = None
                for cid in checks_for(f, fn):
                    rc, out, secs = run_check(cid, env)
                    rec['checks'][cid] = {'rc': rc, 's': round(secs, 1)}
                    if rc == 1:
                        rec['detected_by'] = cid
                        rec['no_failing_input'] = 'no-failing-input-found' in out
                        break
                    if rc == 2:
                        rec['checks'][cid]['tail'] = out[-400:]
        finally:
            open(os.path.join(wrepo, f), 'w').write(src)
        log.write(json.dumps(rec) + '\n'); log.flush()
    shutil.rmtree(wd, ignore_errors=True)
    return wid


if __name__ == '__main__':
    W = int(sys.argv[1]) if len(sys.argv) > 1 else 10
    every = int(sys.argv[2]) if len(sys.argv) > 2 else 1
    os.makedirs(ROOT, exist_ok=True)
    done = set()
    for fn in os.listdir(ROOT):
        if fn.startswith('results_w') and fn.endswith('.jsonl'):
            for l in open(os.path.join(ROOT, fn)):
                try:
                    done.add(json.loads(l)['key'])
                except Exception:
                    pass
    jobs = []
    for f in mutate.FILES:
        src = open(os.path.join(SRC, f)).read()
        _, muts = mutate.gen_mutants(src)
        jobs += [(f, m) for m in muts]
    import random
    random.Random(20260927).shuffle(jobs)       # partial results are a uniform sample of all files
    jobs = jobs[::every]
    print('mutants', len(jobs), 'already done', len(done), flush=True)
    chunks = [(w, jobs[w::W], done) for w in range(W)]
    with ProcessPoolExecutor(W) as ex:
        for r in ex.map(worker, chunks):
            print('worker', r, 'finished', flush=True)
    recs = []
    for fn in sorted(os.listdir(ROOT)):
        if fn.startswith('results_w') and fn.endswith('.jsonl'):
            recs += [json.loads(l) for l in open(os.path.join(ROOT, fn))]
    import csv
    with open(os.path.join(HERE, 'replay_results.csv'), 'w', newline='') as fh:
        w = csv.writer(fh)
        w.writerow(['file', 'func', 'line', 'kind', 'variant', 'survived_suite', 'detected_by', 'no_failing_input', 'checks_run', 'infra'])
        for r in sorted(recs, key=lambda r: (r['file'], r['line'] or 0, r['kind'], r['variant'])):
            cs = r.get('checks', {})
            w.writerow([r['file'], r['func'], r['line'], r['kind'], r['variant'], int(r['survived_suite']), r.get('detected_by') or '',
                        int(bool(r.get('no_failing_input'))), ' '.join(cs), ' '.join(c for c, v in cs.items() if v['rc'] == 2)])
    print('done', len(recs))
