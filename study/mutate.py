"""Scratch AST-mutation study: which single-node mutants of npstructures survive the pinned suite."""
import ast, copy, sys, os, json, subprocess, shutil, time, hashlib
from concurrent.futures import ProcessPoolExecutor

SRC = '/repo'
FILES = ['npstructures/raggedshape.py', 'npstructures/raggedarray/__init__.py', 'npstructures/raggedarray/base.py',
         'npstructures/raggedarray/indexablearray.py', 'npstructures/raggedarray/raggedslice.py', 'npstructures/arrayfunctions.py',
         'npstructures/hashtable.py', 'npstructures/bitarray.py', 'npstructures/runlengtharray.py', 'npstructures/npdataclasses.py',
         'npstructures/mixin.py', 'npstructures/util.py']
BIN = {ast.Add: [ast.Sub], ast.Sub: [ast.Add], ast.Mult: [ast.FloorDiv], ast.FloorDiv: [ast.Mult], ast.Mod: [ast.FloorDiv],
       ast.BitAnd: [ast.BitOr], ast.BitOr: [ast.BitAnd], ast.BitXor: [ast.BitOr], ast.LShift: [ast.RShift], ast.RShift: [ast.LShift],
       ast.Div: [ast.Mult]}
CMP = {ast.Lt: [ast.LtE, ast.Gt], ast.LtE: [ast.Lt, ast.GtE], ast.Gt: [ast.GtE, ast.Lt], ast.GtE: [ast.Gt, ast.LtE],
       ast.Eq: [ast.NotEq], ast.NotEq: [ast.Eq], ast.Is: [ast.IsNot], ast.IsNot: [ast.Is], ast.In: [ast.NotIn], ast.NotIn: [ast.In]}
NAMES = {'minimum': 'maximum', 'maximum': 'minimum', 'min': 'max', 'max': 'min', 'any': 'all', 'all': 'any',
         'starts': 'ends', 'ends': 'starts', 'zeros_like': 'ones_like', 'ones_like': 'zeros_like', 'zeros': 'ones', 'ones': 'zeros',
         'logical_xor': 'logical_or', 'bitwise_xor': 'bitwise_or', 'argmax': 'argmin', 'insert': 'append',
         'searchsorted': None, 'cumsum': 'cumprod'}

def qualnames(tree):
    """map id(node) -> enclosing function qualname"""
    out = {}
    def visit(node, q):
        for ch in ast.iter_child_nodes(node):
            if isinstance(ch, (ast.FunctionDef, ast.ClassDef)):
                visit(ch, (q + '.' if q else '') + ch.name)
            else:
                out[id(ch)] = q
                visit(ch, q)
    visit(tree, '')
    return out

def gen_mutants(src):
    tree = ast.parse(src)
    nodes = list(ast.walk(tree))
    q = qualnames(tree)
    muts = []  # (index, kind, variant)
    for i, n in enumerate(nodes):
        fn = q.get(id(n), '')
        if not fn: continue
        if isinstance(n, ast.BinOp) and type(n.op) in BIN:
            for j, _ in enumerate(BIN[type(n.op)]): muts.append((i, 'binop', j))
        elif isinstance(n, ast.AugAssign) and type(n.op) in BIN:
            for j, _ in enumerate(BIN[type(n.op)]): muts.append((i, 'augop', j))
        elif isinstance(n, ast.Compare) and len(n.ops) == 1 and type(n.ops[0]) in CMP:
            for j, _ in enumerate(CMP[type(n.ops[0])]): muts.append((i, 'cmp', j))
        elif isinstance(n, ast.Constant):
            if isinstance(n.value, bool): muts.append((i, 'const', 0))
            elif isinstance(n.value, int) and abs(n.value) <= 64: muts.append((i, 'const', 1)); muts.append((i, 'const', -1))
            elif n.value in ('left', 'right'): muts.append((i, 'const', 0))
        elif isinstance(n, ast.UnaryOp) and isinstance(n.op, (ast.USub, ast.Not, ast.Invert)):
            muts.append((i, 'unary', 0))
        elif isinstance(n, ast.BoolOp): muts.append((i, 'boolop', 0))
        elif isinstance(n, ast.Attribute) and NAMES.get(n.attr): muts.append((i, 'attr', 0))
        elif isinstance(n, ast.Slice):
            if n.lower is not None: muts.append((i, 'slice', 0))
            if n.upper is not None: muts.append((i, 'slice', 1))
            if n.step is not None: muts.append((i, 'slice', 2))
        elif isinstance(n, (ast.If, ast.IfExp)): muts.append((i, 'ifneg', 0))
        elif isinstance(n, (ast.Assign, ast.AugAssign, ast.Expr)) and not (isinstance(n, ast.Expr) and isinstance(n.value, ast.Constant)):
            muts.append((i, 'delstmt', 0))
        elif isinstance(n, ast.keyword) and n.arg == 'side': pass
    return tree, muts

def apply(src, mut):
    tree = ast.parse(src)
    nodes = list(ast.walk(tree))
    q = qualnames(tree)
    i, kind, v = mut
    n = nodes[i]
    fn = q.get(id(n), '')
    line = getattr(n, 'lineno', None)
    if kind in ('binop', 'augop'): n.op = BIN[type(n.op)][v]()
    elif kind == 'cmp': n.ops = [CMP[type(n.ops[0])][v]()]
    elif kind == 'const':
        if isinstance(n.value, bool): n.value = not n.value
        elif isinstance(n.value, int): n.value = n.value + v
        else: n.value = 'left' if n.value == 'right' else 'right'
    elif kind == 'unary':
        # replace node by operand: find parent
        for p in nodes:
            for f, val in ast.iter_fields(p):
                if val is n: setattr(p, f, n.operand)
                elif isinstance(val, list) and n in val: val[val.index(n)] = n.operand
    elif kind == 'boolop': n.op = ast.Or() if isinstance(n.op, ast.And) else ast.And()
    elif kind == 'attr': n.attr = NAMES[n.attr]
    elif kind == 'slice':
        if v == 0: n.lower = None
        elif v == 1: n.upper = None
        else: n.step = ast.UnaryOp(ast.USub(), n.step)
    elif kind == 'ifneg': n.test = ast.UnaryOp(ast.Not(), n.test)
    elif kind == 'delstmt':
        for p in nodes:
            for f, val in ast.iter_fields(p):
                if isinstance(val, list) and n in val: val[val.index(n)] = ast.Pass()
    ast.fix_missing_locations(tree)
    return ast.unparse(tree), fn, line

def worker(args):
    wid, jobs = args
    wd = f'/root/scratch/mut/w{wid}'
    shutil.rmtree(wd, ignore_errors=True)
    subprocess.run(['rsync', '-a', '--exclude', '.git', '--exclude', 'docs', '--exclude', 'docs_source', '--exclude', 'benchmarks',
                    '--exclude', 'profiling', '--exclude', '__pycache__', SRC + '/', wd + '/'], check=True)
    res = []
    for f, mut in jobs:
        src = open(os.path.join(SRC, f)).read()
        try:
            new, fn, line = apply(src, mut)
            compile(new, f, 'exec')
        except Exception as e:
            continue
        if new == ast.unparse(ast.parse(src)): continue
        open(os.path.join(wd, f), 'w').write(new)
        t = time.time()
        try:
            p = subprocess.run(['/venv/bin/python', '-m', 'pytest', '-q', '-x', '-p', 'no:cacheprovider', '--timeout=60',
                                '--deselect', 'tests/test_raggedarray.py::test_two_indexing_row_n', 'tests'],
                               cwd=wd, capture_output=True, text=True, timeout=240,
                               env={**os.environ, 'PYTHONDONTWRITEBYTECODE': '1'})
            survived = (p.returncode == 0)
        except subprocess.TimeoutExpired:
            survived = False
        res.append({'file': f, 'func': fn, 'line': line, 'kind': mut[1], 'variant': mut[2], 'survived': survived, 's': round(time.time() - t, 1)})
        open(os.path.join(wd, f), 'w').write(src)
    shutil.rmtree(wd, ignore_errors=True)
    return res

if __name__ == '__main__':
    jobs = []
    for f in FILES:
        src = open(os.path.join(SRC, f)).read()
        _, muts = gen_mutants(src)
        jobs += [(f, m) for m in muts]
    print('mutants', len(jobs), flush=True)
    W = 16
    chunks = [(w, jobs[w::W]) for w in range(W)]
    out = []
    with ProcessPoolExecutor(W) as ex:
        for r in ex.map(worker, chunks): out += r
    json.dump(out, open('/root/scratch/mut/results.json', 'w'))
    print('done', len(out), sum(r['survived'] for r in out))
