"""Generators and runners shared by C11 (HashTable / HashSet) and C12 (Counter)."""
import numpy as np
import gens

KEY_DTYPES = ["int64", "int64", "int32", "uint64", "int16", "uint8"]


def key_set(rng, dtype):
    n = rng.choice([1, 1, 2, 3, 4, 5, 6, 8, 8, 12, 24, 48])
    info = np.iinfo(dtype)
    pool = set()
    style = rng.choice(["small", "small", "mixed", "big", "collide"])
    tries = 0
    while len(pool) < n and tries < 1000:
        tries += 1
        if style == "small":
            k = rng.randint(0, 30 + 3 * n)
        elif style == "collide":
            k = rng.randint(0, 4 + n) * 7 + 3    # many keys share buckets for mod 7
        elif style == "big":
            k = rng.choice([info.max, info.max - 1, info.min, 2 ** 62, -(2 ** 62), 2 ** 62 + 1]) - rng.randint(0, 3) * rng.choice([0, 1])
        else:
            k = rng.choice([rng.randint(-50, 50), rng.randint(0, 10 ** 6), 2 ** 62, -(2 ** 62)])
        if info.min <= k <= info.max:
            pool.add(int(k))
    keys = list(pool)
    rng.shuffle(keys)
    if rng.random() < 0.3:
        keys.sort()             # keys handed over in ascending order (often already in bucket order)
    return keys


def pick_mod(rng, n):
    return rng.choice([None, None, 1, 2, 3, 7, n, 2 * n - 1, 1000, n + 1])


def absent_keys(rng, keys, dtype, mod, wide=False):
    """wide=True: the queries will be int64 arrays on a table with a narrower key dtype; absent keys then include
    values outside the key dtype that are congruent to a present key modulo 2**bits (a C cast would alias them)"""
    info = np.iinfo(dtype)
    out = []
    if wide:
        span = 2 ** info.bits
        for k in keys[:4]:
            out += [int(k + span), int(k - span)]
        out.append(int(info.max) + 1)
    m = mod if mod is not None else max(1, 2 * len(keys) - 1)
    for k in keys[:3]:
        for cand in (k + m, k - m, k + 1, k + m * 2):     # collides with a non-empty bucket / neighbours
            if info.min <= cand <= info.max and cand not in keys:
                out.append(int(cand))
    for _ in range(3):
        cand = rng.randint(max(info.min, -1000), min(info.max, 1000))
        if cand not in keys:
            out.append(int(cand))
    return out or [int(min(info.max, max(keys) + 1))] if (max(keys) + 1) not in keys and max(keys) + 1 <= info.max else out


def queries(rng, keys, absent, allow_absent=True, maxlen=6):
    k = rng.randint(0, maxlen)
    qs = [rng.choice(keys) for _ in range(k)]
    if allow_absent and absent and rng.random() < 0.25 and qs:
        qs[rng.randrange(len(qs))] = rng.choice(absent)
    return qs


def sort_pairs(pairs):
    return sorted(([int(k), v] for k, v in pairs), key=lambda p: p[0])
