#!/venv/bin/python
"""Validation of the N layer (the Lean model of numpy primitives and of CPython slice semantics) against
numpy / CPython themselves: exhaustive small scope + random.  Run by setup_cmd and by `./check NLAYER`.
A failure is an infrastructure error (the model of numpy is wrong for this numpy version), never a
property verdict."""
import sys, os, itertools, random, json
sys.dont_write_bytecode = True
HERE = os.path.dirname(os.path.abspath(__file__))
sys.path.insert(0, HERE)
import numpy as np
import engine


def main():
    rng = random.Random(int(os.environ.get("VERIF_SEED", "0") or 0))
    reqs, exps = [], []
    def add(req, exp):
        req["op"] = "Np.eval"; reqs.append(req); exps.append(exp)
    R = {"refuse": True}
    arrays = [list(t) for n in range(0, 5) for t in itertools.product([-1, 0, 2], repeat=n)]
    for a in arrays:
        arr = np.array(a, dtype=np.int64)
        add({"p": "cumsum", "a": a}, np.cumsum(arr).tolist())
        add({"p": "diff", "a": a}, np.diff(arr).tolist() if len(a) else [])
    small = [list(t) for n in range(0, 4) for t in itertools.product([5, 6, 7], repeat=n)]
    idxs = [list(t) for n in range(0, 3) for t in itertools.product(range(-4, 5), repeat=n)]
    for a in small:
        arr = np.array(a, dtype=np.int64)
        for ix in idxs:
            try:
                exp = arr[np.array(ix, dtype=np.int64)].tolist()
            except IndexError:
                exp = R
            add({"p": "gather", "a": a, "idx": ix}, exp)
        for i in range(-5, 6):
            try:
                exp = int(arr[i])
            except IndexError:
                exp = R
            add({"p": "index", "a": a, "i": i}, exp)
    # scatter with duplicate targets (last write wins) and buffered ^=
    for n in range(1, 5):
        for ix in itertools.product(range(n), repeat=min(3, n + 1)):
            a = list(range(10, 10 + n)); vals = [1, 2, 4][:len(ix)]
            arr = np.array(a); arr[list(ix)] = vals
            add({"p": "scatter", "a": a, "idx": list(ix), "vals": vals}, arr.tolist())
            arr = np.array(a, dtype=np.uint64); arr[list(ix)] ^= np.array(vals, dtype=np.uint64)
            add({"p": "xor_scatter", "a": a, "idx": list(ix), "vals": vals}, [int(x) for x in arr])
    for m in itertools.chain.from_iterable(itertools.product([False, True], repeat=n) for n in range(0, 6)):
        add({"p": "flatnonzero", "m": list(m)}, np.flatnonzero(np.array(m, dtype=bool)).tolist())
    sorted_arrays = [sorted(t) for n in range(0, 5) for t in itertools.product([0, 1, 1, 3], repeat=n)]
    for a in sorted_arrays[::3]:
        for v in range(-1, 5):
            add({"p": "searchsorted_right", "a": a, "v": v}, int(np.searchsorted(np.array(a, dtype=np.int64), v, side="right")))
            add({"p": "searchsorted_left", "a": a, "v": v}, int(np.searchsorted(np.array(a, dtype=np.int64), v, side="left")))
    for a in [list(t) for n in range(0, 4) for t in itertools.product(range(4), repeat=n)]:
        for m in (0, 2, 5):
            add({"p": "bincount", "a": a, "m": m}, np.bincount(np.array(a, dtype=np.int64), minlength=m).tolist())
        cnts = [rng.randint(0, 3) for _ in a]
        add({"p": "repeat", "a": a, "counts": cnts}, np.repeat(np.array(a, dtype=np.int64), cnts).tolist())
        add({"p": "stable_argsort", "a": a}, np.argsort(np.array(a, dtype=np.int64), kind="mergesort").tolist())
        add({"p": "xor_accumulate", "a": a}, [int(x) for x in np.bitwise_xor.accumulate(np.array(a, dtype=np.uint64))] if a else [])
        for d in ([], [0], [0, 0], list(range(len(a)))[::2]):
            if all(i < len(a) for i in d):
                add({"p": "delete", "a": a, "idx": d}, np.delete(np.array(a, dtype=np.int64), d).tolist())
    # CPython slices
    for n in range(0, 5):
        a = list(range(n))
        B = [None] + list(range(-(n + 2), n + 3))
        for s in B:
            for e in B:
                for k in (None, 1, 2, 3, -1, -2, -3, 0):
                    if k == 0:
                        add({"p": "slice", "a": a, "s": s, "e": e, "k": 0}, R)
                    else:
                        add({"p": "slice", "a": a, "s": s, "e": e, "k": k}, a[s:e:k])
                        add({"p": "slice_len", "a": [], "n": n, "s": s, "e": e, "k": 1 if k is None else k}, len(range(n)[s:e:k]))
    # reduceat: equal / decreasing / trailing indices
    for a in [list(t) for n in range(1, 5) for t in itertools.product([1, 2], repeat=n)]:
        for ix in itertools.chain.from_iterable(itertools.product(range(len(a) + 1), repeat=m) for m in range(1, 4)):
            if list(ix) != sorted(ix):
                continue
            try:
                exp = np.add.reduceat(np.array(a, dtype=np.int64), list(ix)).tolist()
            except IndexError:
                exp = R
            add({"p": "reduceat_add", "a": a, "idx": list(ix)}, exp)
    for x in (0, 1, 3, 2 ** 63, 2 ** 64 - 1):
        for s in (0, 1, 31, 63, 64, 65, 100):
            with np.errstate(all="ignore"):
                add({"p": "shl64", "a": [], "x": x, "s": s}, int(np.uint64(x) << np.uint64(s)))
    got = engine.run_driver(reqs)
    bad = [(r, g, e) for r, g, e in zip(reqs, got, exps) if g != e]
    print(f"N-layer validation: {len(reqs)} evaluations against numpy {np.__version__} / CPython, {len(bad)} disagreements")
    for r, g, e in bad[:10]:
        print("  DISAGREE", json.dumps(r), "model:", g, "numpy:", e)
    sys.exit(2 if bad else 0)


if __name__ == "__main__":
    main()
