"""Generic machinery shared by every property check.

Flow of one check (see DESIGN.md section 9):
  1. Lean phase   : regenerate Gen/Cur.lean from /repo's source, build the property's theorems and the
                    driver, audit axioms and forbidden tokens.
  2. Correspondence: generate cases, run them on the real implementation (in-process), on the Lean
                    model L and the Lean specification S (driver, line protocol) and on a CPython/numpy
                    oracle; compare.
  3. Verdict      : implementation != S on a case  -> concrete failing input -> VIOLATION (or a
                    KNOWN-FINDING when the case is listed in known_findings.json);
                    broken proof obligation without a failing input -> VIOLATION ... no-failing-input-found.
  4. Evidence     : evidence/<ID>.json, rewritten on every run.
Exit codes: 0 held / 1 violation / 2 infrastructure failure.
"""
import os, sys, json, time, subprocess, hashlib, random, fcntl, re, math, traceback

VERIF = os.path.dirname(os.path.dirname(os.path.abspath(__file__)))
REPO = os.environ.get("NPS_REPO", "/repo")
LEAN_DIR = os.environ.get("VERIF_LEAN_DIR") or os.path.join(VERIF, "lean")      # (evaluation tooling may point this at a copy)
OUT_DIR = os.environ.get("VERIF_OUT_DIR") or VERIF                                  # evidence/ and replays/ live here
BRIDGE_MODULE = {"ht_mod": "ht_hash"}      # kernels whose bridge lemma is stated in another kernel's bridge module
DRIVER = os.path.join(LEAN_DIR, ".lake", "build", "bin", "driver")
ALLOWED_AXIOMS = {"propext", "Classical.choice", "Quot.sound"}
FORBIDDEN = re.compile(r"\b(sorry|admit|native_decide|bv_decide|implemented_by|unsafe)\b|^\s*axiom\s|maxHeartbeats\s+0")

if REPO not in sys.path:
    sys.path.insert(0, REPO)
os.environ.setdefault("PYTHONDONTWRITEBYTECODE", "1")
sys.dont_write_bytecode = True


class InfraError(Exception):
    pass


# ----------------------------------------------------------------------------------------------
# canonical values
# ----------------------------------------------------------------------------------------------
def _scalar(v):
    import numpy as np
    if isinstance(v, (bool, np.bool_)):
        return bool(v)
    if isinstance(v, (int, np.integer)):
        return int(v)
    if isinstance(v, (float, np.floating)):
        f = float(v)
        if math.isnan(f):
            return "nan"
        return f.hex()
    if isinstance(v, (complex, np.complexfloating)):
        return str(v)
    if isinstance(v, (str, bytes)):
        return str(v)
    return repr(v)


def _nest(x):
    if isinstance(x, (list, tuple)):
        return [_nest(i) for i in x]
    return _scalar(x)


def canon(x):
    """Canonical JSON-able form of an implementation / oracle result."""
    import numpy as np
    try:
        from npstructures import RaggedArray
    except Exception:  # pragma: no cover
        RaggedArray = ()
    if isinstance(x, dict) and "k" in x:
        return x
    if isinstance(x, RaggedArray):
        return {"k": "ra", "dt": str(x.dtype), "v": [_nest(r.tolist()) for r in x]}
    if isinstance(x, np.ndarray):
        return {"k": "nd", "dt": str(x.dtype), "v": _nest(x.tolist())}
    if isinstance(x, np.generic):
        return {"k": "sc", "dt": str(x.dtype), "v": _scalar(x)}
    if isinstance(x, (bool, int, float)):
        return {"k": "py", "v": _scalar(x)}
    if isinstance(x, tuple):
        return {"k": "tup", "v": [canon(i) for i in x]}
    if isinstance(x, list):
        return {"k": "list", "v": [canon(i) if not isinstance(i, (bool, int, float)) else _scalar(i) for i in x]}
    if x is None:
        return {"k": "none"}
    return {"k": "other", "v": repr(x)}


def refuse(exc=None):
    return {"k": "refuse", "exc": type(exc).__name__ if exc is not None else ""}


def is_refuse(v):
    return isinstance(v, dict) and v.get("k") == "refuse"


class Inconsistent(Exception):
    """raised by a HARNESS when the implementation's answers contradict each other (an operand changed, a result aliases its
    source, ...): an observation in its own right -- never a refusal, so it cannot be mistaken for an expected one"""


def guarded(fn):
    """Run fn(); any exception of the implementation is a refusal (the properties say 'refused with an
    error', not which one).  The exception class is kept aside for the evidence."""
    import warnings
    try:
        with warnings.catch_warnings():
            warnings.simplefilter("ignore")
            return canon(fn())
    except (KeyboardInterrupt, SystemExit):
        raise
    except Inconsistent as e:
        return {"k": "inconsistent", "msg": str(e)[:300]}
    except MemoryError as e:
        # numpy refusing an absurd allocation request (a wrong size computed from a small input) is behaviour of the
        # implementation; the harness itself running out of memory is not
        if type(e).__qualname__ == "_ArrayMemoryError":
            return refuse(e)
        raise
    except BaseException as e:  # noqa
        return refuse(e)


def same(a, b, dtype=True):
    """Equality of canonical values; exception classes are ignored, dtypes optionally."""
    if isinstance(a, dict) and isinstance(b, dict):
        if a.get("k") == "refuse" or b.get("k") == "refuse":
            return a.get("k") == b.get("k")
        ka = set(a) - ({"exc"} | (set() if dtype else {"dt"}))
        kb = set(b) - ({"exc"} | (set() if dtype else {"dt"}))
        if ka != kb:
            return False
        return all(same(a[k], b[k], dtype) for k in ka)
    if isinstance(a, list) and isinstance(b, list):
        return len(a) == len(b) and all(same(x, y, dtype) for x, y in zip(a, b))
    if isinstance(a, bool) != isinstance(b, bool):
        return False
    return a == b


def same_cells(a, b):
    """like `same`, but the dtype of a ragged / flat array WITHOUT ANY CELL is not judged (numpy infers
    float64 for an empty list; the properties speak about cells)"""
    if isinstance(a, dict) and isinstance(b, dict) and a.get("k") == b.get("k") and a.get("k") in ("ra", "nd"):
        def empty(x):
            v = x["v"]
            return all((len(r) == 0 if isinstance(r, list) else False) for r in v) if isinstance(v, list) else False
        if empty(a) and empty(b):
            return same(a, b, dtype=False)
    return same(a, b)


# ----------------------------------------------------------------------------------------------
# Lean phase
# ----------------------------------------------------------------------------------------------
class LeanStatus:
    def __init__(self):
        self.ok = True
        self.broken = []          # list of dicts describing broken obligations (translator / bridge)
        self.theorems = {}        # name -> axioms list
        self.bad_axioms = {}      # name -> offending axioms
        self.kernels_changed = [] # kernels whose generated text differs from Ref but whose bridge re-proved
        self.build_s = 0.0
        self.log = ""


def _run(cmd, cwd=None, timeout=1800, env=None):
    p = subprocess.run(cmd, cwd=cwd, stdout=subprocess.PIPE, stderr=subprocess.STDOUT, text=True,
                       timeout=timeout, env=env)
    out = "\n".join(l for l in p.stdout.splitlines() if "conda" not in l.lower() or "error" in l.lower())
    return p.returncode, out


def lake(args, timeout=1800):
    return _run(["lake"] + args, cwd=LEAN_DIR, timeout=timeout)


class LeanLock:
    def __enter__(self):
        os.makedirs(os.path.join(LEAN_DIR, ".lake"), exist_ok=True)
        self.f = open(os.path.join(LEAN_DIR, ".lake", "verif.lock"), "w")
        fcntl.flock(self.f, fcntl.LOCK_EX)
        return self

    def __exit__(self, *a):
        fcntl.flock(self.f, fcntl.LOCK_UN)
        self.f.close()


def forbidden_token_scan():
    """grep for sorry/admit/axiom/native_decide/... in the library, comments excluded."""
    hits = []
    for root in ("NpsVerif", "Drv"):
        for dp, _, fns in os.walk(os.path.join(LEAN_DIR, root)):
            for fn in fns:
                if not fn.endswith(".lean"):
                    continue
                path = os.path.join(dp, fn)
                txt = open(path).read()
                txt = re.sub(r"/-.*?-/", lambda m: "\n" * m.group(0).count("\n"), txt, flags=re.S)
                for no, line in enumerate(txt.splitlines(), 1):
                    code = line.split("--")[0]
                    if FORBIDDEN.search(code):
                        hits.append(f"{os.path.relpath(path, LEAN_DIR)}:{no}: {line.strip()}")
    return hits


def lean_phase(prop_id, modules, kernels=(), tier="quick", gen_proofs=(), extras=()):
    """Regenerate kernels, build, audit.  Returns LeanStatus.  Raises InfraError for framework defects."""
    import translate
    st = LeanStatus()
    t0 = time.time()
    with LeanLock():
        # 1. translator (tie 1): /repo source -> Gen/Cur.lean
        tr = translate.regenerate(REPO, LEAN_DIR)
        for k in tr["errors"]:
            if k["kernel"] in kernels:      # a kernel this property's model does not use is none of its business
                st.broken.append({"kind": "translator", **k})
        # 2. build: Cur, then bridges, then the property's theorems, then the driver
        rc, out = lake(["build", "NpsVerif.Gen.Cur"] + (["NpsVerif.Gen.CurW"] if gen_proofs else []))
        st.log += out
        if rc != 0:
            # the translator emitted something Lean rejects: caused by a source change (clean tree is tested)
            st.broken.append({"kind": "translator-output", "kernel": "*", "detail": out[-2000:]})
            st.ok = False
            st.build_s = time.time() - t0
            return st
        rc, out = lake(["build", "driver"])
        st.log += out
        if rc != 0:
            raise InfraError("driver build failed:\n" + out[-4000:])
        # translator validation: generated kernel vs the real method on an integer box
        st.kernel_validation = None
        if kernels or extras:
            import kernel_validate
            try:
                n_eval, bad = kernel_validate.validate(set(kernels) | set(extras))
            except InfraError:
                raise
            except Exception as e:      # the real method could not even be called: the source changed shape
                n_eval, bad = 0, [{"kernel": "*", "detail": f"kernel validation crashed: {type(e).__name__}: {e}"}]
            st.kernel_validation = {"evaluations": n_eval, "disagreements": len(bad)}
            if bad:
                st.ok = False
                st.broken.append({"kind": "translator-validation", "kernel": bad[0].get("kernel"),
                                  "detail": "generated kernel disagrees with the real method (row-projection convention violated?)",
                                  "examples": bad[:3]})
        bridge_broken = set()
        for k in kernels:
            if BRIDGE_MODULE.get(k, k) != k:
                continue                    # its bridge lemma lives in another kernel's module (listed as well)
            mod = f"NpsVerif.Gen.Bridge.{k}"
            rc, out = lake(["build", mod])
            st.log += out
            if rc != 0:
                bridge_broken.add(k)
                st.broken.append({"kind": "bridge", "kernel": k, "theorem": f"Gen.Bridge.{k}_bridge",
                                  "detail": out[-3000:]})
            elif k in tr["changed"]:
                st.kernels_changed.append(k)
        # theorems stated directly about the generated kernels (re-proved against the current source)
        gen_ok = []
        if not bridge_broken:
            for mod in gen_proofs:
                rc, out = lake(["build", mod])
                st.log += out
                if rc != 0:
                    st.ok = False
                    st.broken.append({"kind": "generated-proof", "module": mod,
                                      "detail": "a theorem about the kernels generated from the current source no longer checks:\n" + out[-3000:]})
                else:
                    gen_ok.append(mod)
        if bridge_broken:
            st.ok = False
        else:
            rc, out = lake(["build"] + modules)
            st.log += out
            if rc != 0:
                raise InfraError("Lean build of property theorems failed (not attributable to a kernel):\n" + out[-4000:])
            # 3. audit
            hits = forbidden_token_scan()
            if hits:
                raise InfraError("forbidden tokens in Lean sources:\n" + "\n".join(hits))
            audit_mods = list(modules) + gen_ok + sorted({f"NpsVerif.Gen.Bridge.{BRIDGE_MODULE.get(k, k)}" for k in kernels})
            rc, out = _run(["lake", "env", "lean", "--run", "Audit.lean"] + audit_mods, cwd=LEAN_DIR)
            if rc != 0:
                raise InfraError("axiom audit failed:\n" + out[-3000:])
            for line in out.splitlines():
                m = re.match(r"THEOREM (\S+) (\S+) AXIOMS (.*)$", line)
                if not m:
                    continue
                name = m.group(2)
                if not (name.startswith("Props.") or name.startswith("Gen.Bridge.")):
                    continue
                if re.search(r"\.(eq_\d+|eq_def|match_\d+.*|proof_\d+|_simp_\d+|induct.*|_unary.*|_sunfold|eq_unfold|congr_simp)$", name):
                    continue
                axs = [a for a in m.group(3).split(",") if a]
                st.theorems[name] = axs
                bad = [a for a in axs if a not in ALLOWED_AXIOMS]
                if bad:
                    st.bad_axioms[name] = bad
            if st.bad_axioms:
                raise InfraError(f"unexpected axioms: {st.bad_axioms}")
            if not st.theorems:
                raise InfraError("audit found no property theorems in " + " ".join(modules))
            if tier == "thorough":
                rc, out = _run(["lake", "env", "leanchecker"] + modules + gen_ok, cwd=LEAN_DIR, timeout=3600)
                st.log += out
                if rc != 0:
                    raise InfraError("leanchecker rejected the compiled theorems:\n" + out[-3000:])
                st.leanchecker = True
    st.build_s = time.time() - t0
    return st


def run_driver(requests, timeout=1800):
    """requests: list of dicts; returns list of parsed responses (same order)."""
    if not requests:
        return []
    if not os.path.exists(DRIVER):
        raise InfraError("driver executable missing (setup_cmd not run?)")
    inp = "\n".join(json.dumps(r, separators=(",", ":")) for r in requests) + "\n"
    p = subprocess.run([DRIVER], input=inp, stdout=subprocess.PIPE, stderr=subprocess.PIPE, text=True, timeout=timeout)
    if p.returncode != 0:
        raise InfraError(f"driver crashed rc={p.returncode}: {p.stderr[-2000:]}")
    lines = p.stdout.splitlines()
    if len(lines) != len(requests):
        raise InfraError(f"driver returned {len(lines)} lines for {len(requests)} requests; stderr={p.stderr[-500:]}")
    out = []
    for r, l in zip(requests, lines):
        j = json.loads(l)
        if isinstance(j, dict) and "error" in j:
            raise InfraError(f"driver error {j['error']} on {json.dumps(r)[:300]}")
        out.append(j)
    return out


# ----------------------------------------------------------------------------------------------
# known findings
# ----------------------------------------------------------------------------------------------
def load_findings(prop_id):
    path = os.path.join(VERIF, "known_findings.json")
    if not os.path.exists(path):
        return []
    data = json.load(open(path))
    return [f for f in data.get("findings", []) if prop_id in f.get("properties", [f.get("property")])]


# ----------------------------------------------------------------------------------------------
# the check runner
# ----------------------------------------------------------------------------------------------
class Case:
    """One correspondence case.
    payload : JSON-able description (what the replay file stores)
    impl    : canonical result of the implementation
    expect  : canonical expected result per the specification S (from Lean when available)
    """
    __slots__ = ("payload", "impl", "oracle", "L", "S", "key", "nontrivial", "tags")

    def __init__(self, payload):
        self.payload = payload
        self.impl = self.oracle = self.L = self.S = None
        self.key = None
        self.nontrivial = True
        self.tags = ()


def stable_hash(obj):
    return hashlib.sha1(json.dumps(obj, sort_keys=True, default=str).encode()).hexdigest()[:12]


def write_replay(prop_id, payload):
    d = os.path.join(OUT_DIR, "replays")
    os.makedirs(d, exist_ok=True)
    path = os.path.join(d, f"{prop_id}-{stable_hash(payload)}.json")
    with open(path, "w") as f:
        json.dump(payload, f, indent=1, default=str)
    return path


def write_evidence(prop_id, ev):
    d = os.path.join(OUT_DIR, "evidence")
    os.makedirs(d, exist_ok=True)
    path = os.path.join(d, f"{prop_id}.json")
    tmp = path + ".tmp"
    with open(tmp, "w") as f:
        json.dump(ev, f, indent=1, default=str)
    os.replace(tmp, path)
    return path


def main(prop):
    """prop: a property module (tools/props/cXX.py).  Entry point used by tools/check.py."""
    import argparse
    ap = argparse.ArgumentParser()
    ap.add_argument("tier", nargs="?", default=os.environ.get("VERIF_TIER", "quick"))
    ap.add_argument("--replay", default=None)
    args = ap.parse_args(sys.argv[2:])
    tier = args.tier if args.tier in ("quick", "thorough") else "quick"
    seed = int(os.environ.get("VERIF_SEED", "0") or 0)
    t0 = time.time()
    pid = prop.ID
    try:
        rc = _main(prop, pid, tier, seed, args.replay, t0)
    except InfraError as e:
        print(f"INFRA-ERROR property={pid}: {e}", file=sys.stderr)
        print(f"INFRA-ERROR property={pid} (see stderr)")
        rc = 2
    except Exception:
        traceback.print_exc()
        print(f"INFRA-ERROR property={pid} (exception in harness)")
        rc = 2
    sys.stdout.flush()
    sys.exit(rc)


def effective_kernels(prop):
    """the kernels a property depends on: those its executable model calls (declared in the property module) and those
    whose bridge lemma its theorem modules import, directly or not (found by scanning the `import` lines)"""
    declared = list(getattr(prop, "KERNELS", ()))
    inv = {}
    for k, m in BRIDGE_MODULE.items():
        inv.setdefault(m, []).append(k)
    seen, stack, found = set(), list(prop.LEAN_MODULES), []
    while stack:
        m = stack.pop()
        if m in seen:
            continue
        seen.add(m)
        path = os.path.join(LEAN_DIR, m.replace(".", "/") + ".lean")
        if not os.path.exists(path):
            continue
        for line in open(path):
            mm = re.match(r"\s*import\s+(NpsVerif\.\S+)", line)
            if mm:
                stack.append(mm.group(1))
                if mm.group(1).startswith("NpsVerif.Gen.Bridge."):
                    k = mm.group(1).split(".")[-1]
                    found += [k] + inv.get(k, [])
    out = []
    for k in declared + sorted(set(found)):
        if k not in out:
            out.append(k)
    return tuple(out)


def _main(prop, pid, tier, seed, replay, t0):
    rng = random.Random(seed * 1000003 + int(pid[1:]))
    findings = load_findings(pid)
    open_findings = [f for f in findings if f.get("status") == "open"]

    # ---------------- Lean phase
    kernels = effective_kernels(prop)
    st = lean_phase(pid, prop.LEAN_MODULES, kernels, tier, gen_proofs=getattr(prop, "GEN_PROOFS", ()),
                    extras=getattr(prop, "KERNEL_EXTRAS", ()))

    # the implementation runs under an address-space limit: a wrong size computed from a small input must fail fast
    # (numpy's _ArrayMemoryError, a refusal) instead of filling the machine's memory
    try:
        import resource
        lim = int(os.environ.get("VERIF_AS_LIMIT_GB", "6" if tier == "quick" else "16")) << 30
        resource.setrlimit(resource.RLIMIT_AS, (lim, lim))
    except Exception:
        pass

    # ---------------- cases
    if replay:
        payload = json.load(open(replay))
        payloads = [payload["case"]] if "case" in payload else []
    else:
        payloads = []
        corpus_dir = os.path.join(VERIF, "corpus", pid)
        if os.path.isdir(corpus_dir):
            for fn in sorted(os.listdir(corpus_dir)):
                if fn.endswith(".json"):
                    payloads.append(json.load(open(os.path.join(corpus_dir, fn)))["case"])
        for f in findings:
            w = f.get("witnesses", {}).get(pid)
            if w is None and "witness" in f and f.get("properties", [pid])[0] == pid:
                w = f["witness"]
            if w is not None:
                payloads.append(w)
        payloads.extend(prop.cases(rng, tier))
    cases = [Case(p) for p in payloads]

    # ---------------- implementation + oracle
    if hasattr(prop, "setup"):
        prop.setup()
    exc_classes = {}
    for c in cases:
        c.impl = prop.run_impl(c.payload)
        c.oracle = prop.oracle(c.payload)
        c.key = prop.key(c.payload) if hasattr(prop, "key") else stable_hash(c.payload)

    # ---------------- Lean model / spec
    reqs, idx = [], []
    for i, c in enumerate(cases):
        r = prop.lean_request(c.payload)
        if r is not None:
            reqs.append(r)
            idx.append(i)
    changed = (not st.ok) or bool(st.kernels_changed)
    try:
        resps = run_driver(reqs, timeout=300 if changed else 1800)
    except (InfraError, subprocess.TimeoutExpired) as e:
        if not changed:
            raise InfraError(f"model driver failed although no kernel changed: {e}")
        # the model calls kernels generated from the CHANGED source: with an absurd length or index it can exhaust memory or time.
        # That is one more obligation that no longer checks, not a defect of the harness; the implementation is still compared
        # with the oracle on every case
        st.ok = False
        st.broken.append({"kind": "model-run", "detail": "the executable model (which calls the kernels generated from the current source) "
                          "did not complete: " + str(e)[-500:]})
        resps = []
        idx = []
    for i, resp in zip(idx, resps):
        c = cases[i]
        c.L, c.S = prop.decode_lean(c.payload, resp)

    # ---------------- compare
    violations, known_hits, spec_mismatch, model_mismatch = [], {}, [], []
    n_lean = 0
    for c in cases:
        expect = c.oracle
        if c.S is not None:
            n_lean += 1
            if not prop.same(c.S, c.oracle):
                spec_mismatch.append(c)
                continue
            if not prop.same(c.L, c.S):
                model_mismatch.append(c)
        # (a harness consistency assertion that failed is an observation no expected answer equals, whatever the property's
        #  own comparison looks at)
        incons = isinstance(c.impl, dict) and c.impl.get("k") == "inconsistent"
        if incons or not prop.same(c.impl, expect):
            fid = None
            for f in ([] if incons else open_findings):      # (... and no recorded finding explains it)
                if prop.matches_finding(f, c.payload, c.impl, expect):
                    fid = f["id"]
                    break
            if fid:
                known_hits.setdefault(fid, []).append(c)
            else:
                violations.append(c)

    if spec_mismatch:
        c = spec_mismatch[0]
        raise InfraError("Lean specification S disagrees with the CPython/numpy oracle on "
                         + json.dumps(c.payload)[:500] + f"\n S={json.dumps(c.S)[:500]}\n oracle={json.dumps(c.oracle)[:500]}")
    if model_mismatch and st.ok:
        c = model_mismatch[0]
        raise InfraError("Lean model L disagrees with the Lean specification S although every theorem checks on "
                         + json.dumps(c.payload)[:500] + f"\n L={json.dumps(c.L)[:500]}\n S={json.dumps(c.S)[:500]}")

    # ---------------- verdict
    out_lines = []
    rc = 0
    for f in open_findings:
        hits = known_hits.get(f["id"], [])
        if hits:
            out_lines.append(f"KNOWN-FINDING: property={pid} {f['id']} {f['what']} ({len(hits)} cases this run)")
    replay_paths = []
    if violations:
        rc = 1
        shown = violations[:3]
        for c in shown:
            small = prop.shrink(c.payload) if hasattr(prop, "shrink") else c.payload
            path = write_replay(pid, {"property": pid, "kind": "failing-input", "case": small,
                                      "impl": prop.run_impl(small), "expected": prop.oracle(small),
                                      "seed": seed, "tier": tier,
                                      "broken_obligations": st.broken,
                                      "how": f"./check {pid} --replay <this file>"})
            replay_paths.append(path)
            out_lines.append(f"VIOLATION property={pid} replay={path}")
    elif not st.ok or st.broken:
        # obligation broken, no failing input among everything explored
        rc = 1
        path = write_replay(pid, {"property": pid, "kind": "broken-obligation",
                                  "broken_obligations": st.broken,
                                  "model_vs_spec_disagreements": [c.payload for c in model_mismatch[:5]],
                                  "search": {"cases_explored": len(cases), "tier": tier, "seed": seed},
                                  "note": "a proof obligation tying the model to /repo's current source no longer checks; "
                                          "no input on which the implementation violates the specification was found"})
        out_lines.append(f"VIOLATION property={pid} replay={path} no-failing-input-found")

    # ---------------- evidence
    keys = set()
    nontriv = set()
    for c in cases:
        keys.add(c.key)
        if not is_refuse(c.impl) and prop.nontrivial(c.payload):
            nontriv.add(c.key)
    n_refuse = sum(1 for c in cases if is_refuse(c.impl))
    for c in cases:
        if is_refuse(c.impl):
            exc_classes[c.impl.get("exc", "")] = exc_classes.get(c.impl.get("exc", ""), 0) + 1
    obligations = len(st.theorems) + len([b for b in st.broken])
    ev = {
        "property_id": pid, "tier": tier, "seed": seed, "level": prop.LEVEL,
        "coverage": {
            "obligations": obligations,
            "discharged": len(st.theorems),
            "checker_cmd": "cd lean && lake build " + " ".join(prop.LEAN_MODULES) + " && lake env lean --run Audit.lean " + " ".join(prop.LEAN_MODULES)
                           + (" && lake env leanchecker " + " ".join(prop.LEAN_MODULES) if tier == "thorough" else ""),
            "trusted_base": ["Lean 4.33.0 kernel", "axioms: propext, Classical.choice, Quot.sound only (audited per theorem)",
                             "N layer (model of numpy primitives, validated differentially)",
                             "kernel translator tools/translate.py (validated on an integer box each run)",
                             "correspondence harness tools/engine.py + tools/props/" + pid.lower() + ".py"] + list(getattr(prop, "TRUSTED", [])),
            "theorems": {k: v for k, v in sorted(st.theorems.items())},
            "facets_correspondence_only": list(getattr(prop, "CORRESPONDENCE_ONLY", [])),
            "kernels_regenerated": list(kernels),
            "kernel_translation_validated_against_real_methods": getattr(st, "kernel_validation", None),
            "kernels_text_changed_equivalence_reproved": st.kernels_changed,
            "broken_obligations": st.broken,
            "evaluations": len(cases),
            "programs": len(cases),
            "distinct_nontrivial": len(nontriv),
            "distinct_cases": len(keys),
            "rule": prop.RULE,
            "samples": [c.payload for c in (cases[:: max(1, len(cases) // 5)][:5])],
            "traces_validated_against_impl": len(cases),
            "cases_with_lean_model_and_spec": n_lean,
            "disagreements_checked": len(violations) + sum(len(v) for v in known_hits.values()),
            "refusals": n_refuse, "refusal_classes": exc_classes,
            "distribution": prop.distribution([c.payload for c in cases]) if hasattr(prop, "distribution") else {},
            "exhaustive": bool(getattr(prop, "EXHAUSTIVE", {}).get(tier, False)),
            "known_findings_hit": {k: len(v) for k, v in known_hits.items()},
            "lean_build_s": round(st.build_s, 2),
        },
        "assumptions": list(getattr(prop, "ASSUMPTIONS", [])),
        "wall_s": round(time.time() - t0, 2),
        "violations": len(violations) if violations else (1 if rc == 1 else 0),
    }
    if not replay:          # a --replay run covers one case: it must not replace the evidence of the last full run
        write_evidence(pid, ev)
    for l in out_lines:
        print(l)
    print(f"{pid} {tier}: {len(cases)} cases ({len(nontriv)} distinct non-trivial, {n_lean} through Lean L/S), "
          f"{len(st.theorems)} theorems audited, {len(violations)} violations, "
          f"{sum(len(v) for v in known_hits.values())} known-finding hits, {ev['wall_s']}s")
    return rc
