"""Index grammar shared by C02 / C03 / C06 / C10 / C19: JSON form <-> Python index object, the
CPython list-of-rows oracle, and generators of selectors."""
import itertools
import numpy as np


# ------------------------------------------------------------------ JSON -> python index
def py_rowsel(r, variant=0):
    t = r["t"]
    if t == "int":
        if variant % 7 == 5 and -128 <= r["i"] <= 127:
            return np.int8(r["i"])                  # a narrow numpy integer scalar
        if variant % 7 == 1 and abs(r["i"]) < 2 ** 62:
            return np.array(r["i"])                 # a 0-d integer array (numpy reads it as the integer it holds)
        if abs(r["i"]) >= 2 ** 31:
            return int(r["i"]) if (variant % 2 == 0 or abs(r["i"]) >= 2 ** 63) else np.int64(r["i"])
        return int(r["i"]) if variant % 2 == 0 else np.int64(r["i"])
    if t == "slice":
        return _np_slice(r["a"], r["b"], r["k"], variant)
    if t == "list":
        return list(r["is"]) if variant % 2 == 0 else np.array(r["is"], dtype=np.int64)
    if t == "mask":
        return list(r["bs"]) if variant % 2 == 0 else np.array(r["bs"], dtype=bool)
    if t == "all":
        return Ellipsis if variant % 2 == 0 else slice(None)
    raise ValueError(r)


def _np_slice(a, b, k, variant):
    """slice(a, b, k) with plain Python integers, or (variants 3 and 6 of 7) with its bounds / step as numpy integer scalars of
    the narrowest signed or unsigned type that holds them (numpy reads those through __index__)"""
    if variant % 7 not in (3, 6):
        return slice(a, b, k)
    def f(v, unsigned):
        if v is None or isinstance(v, bool) or not isinstance(v, int) or abs(v) >= 2 ** 62:
            return v
        for dt in ((np.uint8, np.uint16, np.uint64) if unsigned and v >= 0 else (np.int8, np.int16, np.int64)):
            if np.iinfo(dt).min <= v <= np.iinfo(dt).max:
                return dt(v)
        return v
    return slice(f(a, variant % 7 == 3), f(b, variant % 7 == 3), f(k, False))


def py_colsel(c, variant=0):
    if c["t"] == "int":
        if variant % 7 in (5, 6) and -2 ** 15 <= c["i"] < 2 ** 15:
            return np.int8(c["i"]) if -128 <= c["i"] <= 127 else np.int16(c["i"])     # narrow numpy integer scalars
        if abs(c["i"]) >= 2 ** 31:
            # a huge column: a plain Python integer (even variants) or a 64-bit numpy scalar (odd variants)
            return int(c["i"]) if (variant % 2 == 0 or abs(c["i"]) >= 2 ** 63) else np.int64(c["i"])
        if variant % 7 == 4:
            return np.int64(c["i"])
        return int(c["i"])
    if c["t"] == "slice":
        if c["a"] is None and c["b"] is None and c["k"] is None and variant % 3 == 2:
            return Ellipsis
        return _np_slice(c["a"], c["b"], c["k"], variant)
    raise ValueError(c)


def py_index(idx, variant=0):
    r = py_rowsel(idx["r"], variant)
    if idx.get("c") is None:
        if variant % 4 >= 2 and idx["r"]["t"] != "all":
            return (r,)
        return r
    c = py_colsel(idx["c"], variant)
    if isinstance(r, np.ndarray) and r.ndim == 0:
        r = int(r)          # (a 0-d array stands for an integer as a row index on its own; next to a column selector it is left out)
    if r is Ellipsis and c is Ellipsis:
        r = slice(None)
    if r is not Ellipsis and c is not Ellipsis and variant % 5 == 4:
        # an Ellipsis next to a complete (rows, cols) pair stands for no axis at all (numpy: a[i, ..., j] is a[i, j])
        return [(Ellipsis, r, c), (r, Ellipsis, c), (r, c, Ellipsis)][(variant // 5) % 3]
    return (r, c)


# ------------------------------------------------------------------ oracle on plain lists
class Refused(Exception):
    pass


def _index(l, i):
    try:
        return l[i]
    except IndexError:
        raise Refused()


def select_rows(rows, r):
    """list of selected rows (each is the python list object) and whether the selector is an integer"""
    t = r["t"]
    if t == "int":
        return [_index(rows, r["i"])], True
    if t == "slice":
        if r["k"] == 0:
            raise Refused()
        return rows[slice(r["a"], r["b"], r["k"])], False
    if t == "list":
        return [_index(rows, i) for i in r["is"]], False
    if t == "mask":
        if len(r["bs"]) != len(rows):
            raise Refused()
        return [row for row, b in zip(rows, r["bs"]) if b], False
    if t == "all":
        return list(rows), False
    raise ValueError(r)


def select_row_ids(n, r):
    """positions of the selected rows"""
    sel, is_int = select_rows(list(range(n)), r)
    return sel, is_int


def oracle_getitem(rows, idx):
    """('scalar', x) | ('vec', [..]) | ('ragged', [[..]]) ; raises Refused"""
    sel, is_int = select_rows(rows, idx["r"])
    c = idx.get("c")
    if c is None:
        return ("vec", list(sel[0])) if is_int else ("ragged", [list(r) for r in sel])
    if c["t"] == "int":
        vals = [_index(r, c["i"]) for r in sel]
        return ("scalar", vals[0]) if is_int else ("vec", vals)
    if c["k"] == 0:
        raise Refused()
    sl = slice(c["a"], c["b"], c["k"])
    if is_int:
        return ("vec", list(sel[0][sl]))
    return ("ragged", [list(r[sl]) for r in sel])


def addressed_cells(lens, idx):
    """[(row, col)] addressed by idx, in order, grouped per selected row; raises Refused"""
    rows = [[(r, c) for c in range(l)] for r, l in enumerate(lens)]
    kind, v = oracle_getitem(rows, idx)
    if kind == "scalar":
        return [[v]]
    if kind == "vec":
        if idx.get("c") is not None and idx["c"]["t"] == "int":
            return [[x] for x in v]
        return [v]
    return v


# ------------------------------------------------------------------ generators
def ints_around(n, extra=2):
    return list(range(-(n + extra), n + extra))


def rowsels_exhaustive(n, rng, n_slices=12, n_lists=6):
    out = [{"t": "all"}]
    out += [{"t": "int", "i": i} for i in ints_around(n)]
    bounds = [None] + list(range(-(n + 2), n + 3))
    steps = [None, 1, 2, 3, -1, -2, -3]
    allsl = [(a, b, k) for a in bounds for b in bounds for k in steps]
    for a, b, k in (rng.sample(allsl, n_slices) if len(allsl) > n_slices else allsl):
        out.append({"t": "slice", "a": a, "b": b, "k": k})
    out.append({"t": "slice", "a": None, "b": None, "k": -1})
    out.append({"t": "slice", "a": None, "b": None, "k": 2})
    out.append({"t": "slice", "a": 1, "b": None, "k": None})
    for m in itertools.product([False, True], repeat=n):
        out.append({"t": "mask", "bs": list(m)})
    out.append({"t": "mask", "bs": [True] * (n + 1)})
    if n > 1:   # (an empty list is an empty integer selection for the library and for numpy alike, not a mask)
        out.append({"t": "mask", "bs": [True] * (n - 1)})
    out.append({"t": "list", "is": []})
    for _ in range(n_lists):
        k = rng.randint(1, 3)
        lo, hi = (-(n + 1), n) if rng.random() < 0.3 else (-n, n - 1)
        if n == 0:
            lo, hi = -1, 0
        out.append({"t": "list", "is": [rng.randint(lo, hi) for _ in range(k)]})
    return out


def colsels_exhaustive(m, rng, n_slices=20, full_grid=False):
    out = [{"t": "int", "i": j} for j in ints_around(m)]
    bounds = [None] + list(range(-(m + 2), m + 3))
    steps = [None, 1, 2, 3, -1, -2, -3]
    allsl = [(a, b, k) for a in bounds for b in bounds for k in steps]
    chosen = allsl if full_grid else rng.sample(allsl, min(n_slices, len(allsl)))
    for a, b, k in chosen:
        out.append({"t": "slice", "a": a, "b": b, "k": k})
    if not full_grid:
        for a, b, k in [(None, None, None), (None, None, -1), (1, None, None), (None, -1, None), (None, None, 2), (1, None, -1), (None, 0, -1)]:
            out.append({"t": "slice", "a": a, "b": b, "k": k})
        h = rng.choice(HUGE)
        a, b, k = rng.choice([(None, h, None), (-h, None, None), (None, None, h), (None, None, -h), (h, None, -1), (None, -h, -1), (0, h, 2)])
        out.append({"t": "slice", "a": a, "b": b, "k": k})
        # BOTH bounds huge, of opposite signs (their difference leaves the index dtype unless each was clipped to half its range)
        h2 = rng.choice(HUGE)
        a, b, k = rng.choice([(h, -h2, -1), (h, -h2, -2), (-h, h2, 1), (-h, h2, 3), (h, -h2, -h)])
        out.append({"t": "slice", "a": a, "b": b, "k": k})
    return out


# Python integers of any size are valid slice bounds and steps (they clamp); values around the 32- and 64-bit limits
HUGE = [2 ** 31 - 1, 2 ** 31, 2 ** 31 + 1, 2 ** 62, 2 ** 63 - 1,
        46341, 65536, 100003, 2 ** 20 + 1]      # moderately large: products of two of them leave the 32-bit range


def _maybe_huge(sl, rng, p=0.05):
    if rng.random() < p:
        for f in rng.sample(["a", "b", "k"], rng.choice([1, 1, 2])):
            sl[f] = rng.choice(HUGE) * rng.choice([1, -1])
        if rng.random() < 0.3:      # both bounds huge, opposite signs, step of the matching direction
            h, h2 = rng.choice(HUGE), rng.choice(HUGE)
            sg = rng.choice([1, -1])
            sl["a"], sl["b"], sl["k"] = -sg * h, sg * h2, sg * rng.choice([1, 1, 2, 3])
    return sl


def _wrapped_int(i, rng):
    """an integer index far outside the array that a 32-bit cast would map onto the valid index i"""
    return i + rng.choice([2 ** 32, -2 ** 32, 2 ** 33])


def rowsel_random(n, rng):
    r = rng.random()
    if n >= 1 and rng.random() < 0.02:
        return {"t": "int", "i": _wrapped_int(rng.randint(-n, n - 1), rng)}
    if n >= 3 and rng.random() < 0.06:
        # a contiguous block of rows with its inner rows permuted / one inner row replaced by a repeat of another:
        # first and last selected row are the first and last of the block
        a = rng.randrange(0, n - 2); b = rng.randrange(a + 2, n)
        inner = list(range(a + 1, b))
        rng.shuffle(inner)
        if inner and rng.random() < 0.4:
            inner[rng.randrange(len(inner))] = rng.choice(list(range(a, b + 1)))
        rows = [a] + inner + [b]
        if rng.random() < 0.3:
            rows = [i - n for i in rows]
        return {"t": "list", "is": rows}
    if r < 0.1:
        return {"t": "all"}
    if r < 0.25:
        return {"t": "int", "i": rng.randint(-(n + 1), n)}
    if r < 0.55:
        def bd():
            return None if rng.random() < 0.25 else rng.randint(-(n + 3), n + 3)
        return _maybe_huge({"t": "slice", "a": bd(), "b": bd(), "k": rng.choice([None, 1, 2, 3, -1, -2, -3, 5, -4])}, rng)
    if r < 0.8:
        k = rng.randint(0, max(1, min(8, n + 2)))
        bad = rng.random() < 0.1
        lo, hi = (-(n + 2), n + 1) if bad else (-n, n - 1)
        if n == 0 and not bad:
            return {"t": "list", "is": []}
        return {"t": "list", "is": [rng.randint(lo, hi) for _ in range(k)]}
    ln = n if rng.random() < 0.9 else max(1, n + rng.choice([-1, 1]))
    if n == 0:
        return {"t": "list", "is": []}
    p = rng.choice([0.0, 0.3, 0.7, 1.0])
    return {"t": "mask", "bs": [rng.random() < p for _ in range(ln)]}


def colsel_random(m, rng):
    if rng.random() < 0.03:
        return {"t": "int", "i": _wrapped_int(rng.randint(-(m + 1), m), rng)}
    if rng.random() < 0.3:
        return {"t": "int", "i": rng.randint(-(m + 1), m)}
    def bd():
        return None if rng.random() < 0.25 else rng.randint(-(m + 3), m + 3)
    return _maybe_huge({"t": "slice", "a": bd(), "b": bd(), "k": rng.choice([None, 1, 1, 2, 3, -1, -1, -2, -3, 7, -5, 0] if rng.random() < 0.05 else [None, 1, 1, 2, 3, -1, -1, -2, -3, 7, -5])}, rng)


def idx_kind(idx):
    c = idx.get("c")
    s = idx["r"]["t"]
    if idx["r"]["t"] == "slice":
        k = idx["r"]["k"]
        s += "+" if (k is None or k > 0) else "-"
    if c is None:
        return s
    if c["t"] == "int":
        return s + ",int" + ("-" if c["i"] < 0 else "+")
    k = c["k"]
    return s + ",slice" + ("+" if (k is None or k > 0) else "-")


# ------------------------------------------------------------------ assignment oracle on plain rows
def assign_rows(rows, idx, val):
    """rows after `rows[idx] = val` (val: {"t": scalar|flat|column|ragged, "v": ...}); raises Refused.
    Returns None when numpy's own broadcasting of a 2-D value onto a 1-D selection would decide."""
    lens = [len(r) for r in rows]
    groups = addressed_cells(lens, idx)
    c = idx.get("c")
    is_int_r = idx["r"]["t"] == "int"
    ragged_sel = (c is None and not is_int_r) or (c is not None and c["t"] == "slice" and not is_int_r)
    cells = [rc for g in groups for rc in g]
    n = len(cells)
    t, v = val["t"], val["v"]
    if t == "scalar":
        vals = [v] * n
    elif t == "flat":
        if len(v) == n:
            vals = list(v)
        elif len(v) == 1:
            vals = list(v) * n
        else:
            raise Refused()
    elif t == "column":
        if not ragged_sel:
            if len(v) not in (n, 1):
                raise Refused()
            return None
        if len(v) == 1:
            vals = list(v) * n
        elif len(v) != len(groups):
            raise Refused()
        else:
            vals = [x for g, x in zip(groups, v) for _ in g]
    else:
        if not ragged_sel or [len(r) for r in v] != [len(g) for g in groups]:
            raise Refused()
        vals = [x for r in v for x in r]
    new = [list(r) for r in rows]
    for (r, cc), x in zip(cells, vals):
        new[r][cc] = x
    return new


def value_for_selection(rng, lens, idx, fresh):
    """a value descriptor fitting (or, rarely, not fitting) the selection; `fresh()` yields new ints"""
    try:
        groups = addressed_cells(lens, idx)
    except Refused:
        return {"t": "scalar", "v": fresh()}
    c = idx.get("c")
    is_int_r = idx["r"]["t"] == "int"
    ragged_sel = (c is None and not is_int_r) or (c is not None and c["t"] == "slice" and not is_int_r)
    n = sum(len(g) for g in groups)
    if is_int_r and c is not None and c["t"] == "int":
        return {"t": "scalar", "v": fresh()}
    kinds = ["scalar", "flat"] + (["column", "ragged", "ragged_bad"] if ragged_sel else [])
    k = rng.choice(kinds)
    if k == "scalar":
        return {"t": "scalar", "v": fresh()}
    if k == "flat":
        m = n if rng.random() < 0.85 else n + 1
        return {"t": "flat", "v": [fresh() for _ in range(m)]}
    if k == "column":
        m = len(groups) if rng.random() < 0.85 else len(groups) + 1
        if m == 0:
            return {"t": "scalar", "v": fresh()}
        return {"t": "column", "v": [fresh() for _ in range(m)]}
    ls = [len(g) for g in groups]
    if k == "ragged_bad" and ls:
        j = rng.randrange(len(ls)); ls[j] += 1
    return {"t": "ragged", "v": [[fresh() for _ in range(l)] for l in ls]}
