"""Generators and helpers for the run-length properties C14 / C15 / C16."""
import itertools
import numpy as np
import gens

LETTERS = {
    "bool": [False, True, True],
    "int8": [-128, 127, 0], "int16": [-32768, 3, 32767], "int32": [-2 ** 31, 2 ** 31 - 1, -1], "int64": [-2 ** 63, 2 ** 63 - 1, 5],
    "uint8": [0, 255, 7], "uint16": [0, 65535, 9], "uint32": [0, 2 ** 32 - 1, 11], "uint64": [0, 2 ** 64 - 1, 13],
    "float32": [1.5, float("nan"), -0.0], "float64": [float("inf"), float("nan"), -2.25],
    "float16": [1.5, float("nan"), -0.0],
}
SMALL = {"bool": [False, True, True]}
# neighbouring values: distinct, but equal after a round trip through a narrower / floating representation
NEAR = {
    "bool": [False, True, True],
    "int8": [126, 127, -128], "int16": [32766, 32767, -32768], "int32": [2 ** 31 - 2, 2 ** 31 - 1, -2 ** 31],
    "int64": [2 ** 63 - 2, 2 ** 63 - 1, 2 ** 53 + 1],
    "uint8": [254, 255, 0], "uint16": [65534, 65535, 0], "uint32": [2 ** 32 - 2, 2 ** 32 - 1, 2 ** 24 + 1],
    "uint64": [2 ** 63, 2 ** 63 + 1, 2 ** 64 - 1],
    "float32": [1.0, 1.0000001192092896, 16777216.0], "float64": [1.0, 1.0000000000000002, 9007199254740992.0],
    "float16": [1.0, 1.0009765625, 2048.0],
}


ZEROS = {"float32": [0.0, -0.0, 1.0], "float64": [0.0, -0.0, 1.0], "float16": [0.0, -0.0, 1.0]}
INF = {"float32": [float("inf"), float("-inf"), 1.0], "float64": [float("inf"), float("-inf"), 1.0], "float16": [float("inf"), float("-inf"), 1.0]}


def letters(dtype, small=False):
    if small == "inf" and dtype in INF:
        return INF[dtype]
    if small == "zeros" and dtype in ZEROS:
        return ZEROS[dtype]
    if small == "near":
        return NEAR[dtype]
    if small and dtype != "bool":
        return [0, 1, 2] if np.dtype(dtype).kind != "f" else [0.1, 0.7, 2.5]
    return LETTERS[dtype]


def to_values(classes, dtype, small=False):
    L = letters(dtype, small)
    return np.array([L[c] for c in classes], dtype=dtype)


def arrays_exhaustive(max_len, alphabet=3, min_len=1):
    out = []
    for n in range(min_len, max_len + 1):
        out.extend(list(t) for t in itertools.product(range(alphabet), repeat=n))
    return out


def array_random(rng, max_len=40, alphabet=3):
    n = rng.randint(1, max_len)
    mode = rng.random()
    if mode < 0.15:
        return [rng.randrange(alphabet)] * n
    if mode < 0.3:
        return [rng.randrange(alphabet) for _ in range(n)]
    out = []
    while len(out) < n:
        out.extend([rng.randrange(alphabet)] * rng.randint(1, max(1, n // 3)))
    return out[:n]


def canonical_info(r, joined):
    """validity of a library-produced RunLengthArray, read from its internals"""
    ev = np.asarray(r._events)
    vals = np.asarray(r._values)
    ok = len(ev) >= 1 and int(ev[0]) == 0 and len(ev) == len(vals) + 1 and bool(np.all(ev[1:] > ev[:-1]))
    if joined and ok and len(vals) > 1:
        ok = ok and not bool(np.any(vals[1:] == vals[:-1]))
    return ok


def rl_distribution(arrs):
    def nruns(a):
        return 1 + sum(1 for x, y in zip(a, a[1:]) if x != y)
    return {"len_hist": gens.hist(min(len(a), 12) for a in arrs),
            "n_runs_hist": gens.hist(min(nruns(a), 10) for a in arrs),
            "all_equal": sum(1 for a in arrs if nruns(a) == 1), "all_different": sum(1 for a in arrs if nruns(a) == len(a)),
            "single_element": sum(1 for a in arrs if len(a) == 1)}


def lean_classes(classes, dtype, small=False):
    """class ids for the Lean side: letters with equal (==) values share an id (bool has two values only)"""
    L = letters(dtype, small)
    rep = {}
    for i, v in enumerate(L):
        rep[i] = next(j for j, w in enumerate(L) if (w == v) or (w != w and v != v and j == i))
    return [rep[c] for c in classes]
