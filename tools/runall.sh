#!/bin/sh
# runs every registered check once (tier = $1, default quick) on the current tree; prints one line per check
cd "$(dirname "$0")/.."
TIER="${1:-quick}"
for i in 01 02 03 04 05 06 07 08 09 10 11 12 13 14 15 16 17 18 19; do
  START=$(date +%s)
  OUT=$(./check C$i $TIER 2>&1 | grep -v -i conda)
  RC=$?
  END=$(date +%s)
  echo "C$i rc=$(echo "$OUT" | grep -c '^VIOLATION') viol, $(echo "$OUT" | grep -c '^KNOWN-FINDING') known, infra=$(echo "$OUT" | grep -c '^INFRA'), $((END-START))s :: $(echo "$OUT" | tail -1 | cut -c1-150)"
done
