#!/venv/bin/python
"""Regenerates MANIFEST.json from the metadata of tools/props/cXX.py (run by hand after adding a check)."""
import os, sys, json, importlib
sys.dont_write_bytecode = True
HERE = os.path.dirname(os.path.abspath(__file__))
sys.path.insert(0, HERE)
VERIF = os.path.dirname(HERE)
ALL = [f"C{i:02d}" for i in range(1, 20)]
PENDING_REASON = "check not built yet in this round (planned: see DESIGN.md section 6); not a limit of the technique"

def main():
    checks, na = [], []
    for pid in ALL:
        path = os.path.join(HERE, "props", pid.lower() + ".py")
        if not os.path.exists(path):
            na.append({"property_id": pid, "reason": PENDING_REASON}); continue
        m = importlib.import_module("props." + pid.lower())
        checks.append({
            "property_id": pid,
            "quick_cmd": f"./check {pid} quick",
            "thorough_cmd": f"./check {pid} thorough",
            "evidence_file": f"/verif/evidence/{pid}.json",
            "replay_cmd_template": f"./check {pid} --replay {{path}}",
            "engine": "lean4-proof+correspondence",
            "level_claimed": {"category": m.LEVEL, "text": m.LEVEL_TEXT, "design_ref": m.DESIGN_REF},
            "level_note": m.LEVEL_NOTE,
            "technique": m.TECHNIQUE,
        })
    man = {
        "version": 1,
        "setup_cmd": "/venv/bin/python tools/setup.py",
        "hooks": {"guard": "NPSTRUCTURES_VERIF", "enable": "no hooks are needed: every observable is reachable through the public API or readable private attributes; the guard name is reserved and unused",
                  "baseline_off_cmd": "cd /repo && /venv/bin/python -m pytest -ra -q -p no:cacheprovider --timeout=900 --continue-on-collection-errors",
                  "source_commits": [], "add_only": True},
        "engines": [{"name": "lean4-proof+correspondence", "path": "lean/ tools/",
                     "serves_properties": [c["property_id"] for c in checks],
                     "kind_free_text": "Lean 4 library (model L over a model N of numpy, specification S, theorems L = S for all inputs; scalar kernels regenerated from /repo's source on every run and bridged to committed reference kernels) + correspondence harness driving the real implementation, the compiled Lean model/spec (line protocol) and a CPython/numpy oracle on the same cases"}],
        "checks": checks,
        "not_applicable": na,
        "notes": "Fix commits in /repo and known findings: known_findings.json; design: DESIGN.md.",
    }
    with open(os.path.join(VERIF, "MANIFEST.json"), "w") as f:
        json.dump(man, f, indent=1)
    print(f"{len(checks)} checks, {len(na)} not yet claimed")

if __name__ == "__main__":
    main()
