#!/venv/bin/python
"""Evaluation tooling (not a check): runs property checks against ONE classified mutant of the replay study
(/tmp/mutclass/<chunk>/mutants.json, id) without touching /repo: the mutant's one-line diff is re-applied, inside the
named function, to the ast-unparsed CURRENT source in a scratch copy of /repo.
usage: trymut.py <chunk> <id> <check id> [...]        prints one line per check: <id> <check> rc=<0|1|2> <summary>"""
import sys, os, ast, json, subprocess, shutil

VERIF = os.path.dirname(os.path.dirname(os.path.abspath(__file__)))


def func_range(tree, qual):
    parts = qual.split(".")
    def find(body, parts):
        for n in body:
            if isinstance(n, (ast.ClassDef, ast.FunctionDef)) and n.name == parts[0]:
                if len(parts) == 1:
                    return n
                r = find(n.body, parts[1:])
                if r is not None:
                    return r
        return None
    n = find(tree.body, parts)
    if n is None:
        return None
    lo = min([n.lineno] + [d.lineno for d in getattr(n, "decorator_list", [])])
    return lo, n.end_lineno


def mutated_source(src, func, diff):
    text = ast.unparse(ast.parse(src))
    lines = text.splitlines()
    rng = func_range(ast.parse(text), func) or (1, len(lines))
    minus = [d[1:].strip() for d in diff if d.startswith("-")]
    plus = [d[1:] for d in diff if d.startswith("+")]
    if len(minus) != len(plus):
        raise ValueError("diff shape")
    for m, pl in zip(minus, plus):
        for i in range(rng[0] - 1, rng[1]):
            if lines[i].strip() == m:
                lines[i] = pl
                break
        else:
            raise ValueError("line not found: " + m)
    out = "\n".join(lines) + "\n"
    compile(out, "<mutant>", "exec")
    return out


def main():
    chunk, mid, checks = sys.argv[1], sys.argv[2], sys.argv[3:]
    mu = {m["id"]: m for m in json.load(open(f"/tmp/mutclass/{chunk}/mutants.json"))}[mid]
    d = f"/root/scratch/trymut_{mid}"
    shutil.rmtree(d, ignore_errors=True)
    os.makedirs(d)
    subprocess.run(["rsync", "-a", "--exclude", ".git", "--exclude", "docs", "--exclude", "docs_source", "/repo/", d + "/repo/"], check=True)
    path = os.path.join(d, "repo", mu["file"])
    try:
        new = mutated_source(open(path).read(), mu["function"], mu["diff"])
    except Exception as e:
        print(mid, "CANNOT-APPLY", e)
        shutil.rmtree(d, ignore_errors=True)
        return
    open(path, "w").write(new)
    # the checks use a private copy of the Lean project (generated kernels, build products): nothing under /verif is written
    subprocess.run(["rsync", "-a", VERIF + "/lean/", d + "/lean/"], check=True)
    env = {**os.environ, "NPS_REPO": d + "/repo", "VERIF_OUT_DIR": d + "/out", "VERIF_LEAN_DIR": d + "/lean", "PYTHONDONTWRITEBYTECODE": "1"}
    for c in checks:
        p = subprocess.run([VERIF + "/check", c, "quick"], cwd=VERIF, env=env, stdout=subprocess.PIPE, stderr=subprocess.STDOUT, text=True)
        last = [l for l in p.stdout.splitlines() if l.strip()][-1][:160] if p.stdout.strip() else ""
        print(mid, c, f"rc={p.returncode}", last, flush=True)
        if p.returncode == 1:
            break
    shutil.rmtree(d, ignore_errors=True)


if __name__ == "__main__":
    main()
