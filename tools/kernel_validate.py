"""Validation of the kernel translator (tie 1): every generated kernel `Gen.Cur.k` is executed (compiled
driver) on an integer box and compared with the REAL method of /repo's current source executed on the
same arguments (multi-row views, so that the row-projection convention is exercised).
Returns a list of disagreements (empty = the translation of the current source is faithful)."""
import itertools, sys, os
import numpy as np
import engine


def _opt(vals):
    return [None] + list(vals)


M31 = 2 ** 31 - 1
B30 = M31 // 2


def w32_requests(add, guard, R):
    """the wrapping 32-bit kernels `Gen.CurW.*` against the real methods executed on int32 shape arrays (no data
    buffer is needed): rows up to 2^31-1 cells, slice fields up to the clip of IndexableArray._bounded_slice"""
    from npstructures.raggedshape import RaggedView2, ViewBase
    old = ViewBase._dtype
    ViewBase.set_dtype(np.int32)
    try:
        rows = [(0, 0), (0, 1), (3, 5), (0, B30), (7, B30 + 1), (0, B30 + 6), (11, M31 - 11), (0, M31), (M31 - 1, 1), (M31, 0),
                (5, 2 ** 20 + 1), (B30, B30)]
        starts = np.array([r[0] for r in rows], dtype=np.int32)
        lens = np.array([r[1] for r in rows], dtype=np.int32)
        v = RaggedView2(starts, lens, 1)
        assert v.starts.dtype == np.int32 and v.lengths.dtype == np.int32
        bnd = [None, 0, 1, -1, 5, -5, 2 ** 20, -(2 ** 20), B30 - 1, B30, -B30, -(B30 - 1)]
        steps = [None, 1, 2, 3, B30 - 6, B30 - 1, B30, -1, -2, -7, -(B30 - 1), -B30]
        e = v.ends
        for (s0, l), x in zip(rows, e):
            add({"kernel": "w32.view2_ends", "len": l, "s0": s0, "c": 1}, int(x), "w32")
        for a in bnd:
            for b in bnd:
                for k in steps:
                    r = guard(lambda: v.col_slice(slice(a, b, k)))
                    for i, (s0, l) in enumerate(rows):
                        add({"kernel": "w32.col_slice_slice", "len": l, "s0": s0, "c": 1, "a": a, "b": b, "k": k},
                            R if r is None else [int(r.starts[i]), int(r.lengths[i]), int(r.col_step)], "w32")
                    if k is not None and k < 0:
                        r = guard(lambda: v._calculate_lengths(slice(a, b, k)))
                        for i, (s0, l) in enumerate(rows):
                            add({"kernel": "w32.calc_lengths", "len": l, "a": a, "b": b, "k": k}, R if r is None else int(r[i]), "w32")
        for idx in [0, 1, -1, 4, -5, 5, B30, -B30, M31 - 12, -(M31 - 11), M31, -M31, 2 ** 40, -(2 ** 40)]:
            for (s0, l) in rows:
                w = RaggedView2(np.array([s0], dtype=np.int32), np.array([l], dtype=np.int32), 1)
                r = guard(lambda: w.col_slice(idx))
                add({"kernel": "w32.col_slice_int", "len": l, "s0": s0, "c": 1, "idx": idx},
                    R if r is None else [int(r.starts[0]), int(r.lengths[0])], "w32")
    finally:
        ViewBase.set_dtype(old)


def validate(kernels):
    from npstructures.raggedshape import RaggedView2
    from npstructures import RunLengthArray, HashTable
    reqs, exps, tags = [], [], []
    R = {"refuse": True}
    def add(req, exp, tag):
        req["op"] = "K.eval"; reqs.append(req); exps.append(exp); tags.append(tag)
    lens = [0, 1, 2, 3, 5]
    starts = [0, 3, 4, 6, 9]
    bounds = _opt(range(-7, 8))
    steps_neg = [-1, -2, -3, -4]
    steps_pos = [1, 2, 3, 4]
    def view(cstep):
        return RaggedView2(np.array(starts), np.array(lens), cstep)
    def guard(f):
        try:
            return f()
        except Exception:
            return None
    if "view2_ends" in kernels:
        for c in (1, 2, -1, 3):
            e = view(c).ends
            for l, s, x in zip(lens, starts, e):
                add({"kernel": "view2_ends", "len": l, "s0": s, "c": c}, int(x), "view2_ends")
    if "calc_lengths" in kernels:
        v = view(1)
        for a in bounds:
            for b in bounds:
                for k in steps_neg + [None, 2]:
                    r = guard(lambda: v._calculate_lengths(slice(a, b, k)))
                    for i, l in enumerate(lens):
                        if k is None or k > 0:
                            continue     # reachable domain: negative steps only
                        add({"kernel": "calc_lengths", "len": l, "a": a, "b": b, "k": k}, R if r is None else int(r[i]), "calc_lengths")
    if "pos_col_slice" in kernels or "col_slice_slice" in kernels:
        for c in (1, 2, -1):
            v = view(c)
            for a in bounds[::1]:
                for b in bounds[::2]:
                    for k in steps_pos + steps_neg + [None, 0]:
                        if "pos_col_slice" in kernels and k is not None and k > 0:
                            r = guard(lambda: v._pos_col_slice(slice(a, b, k)))
                            for i, l in enumerate(lens):
                                add({"kernel": "pos_col_slice", "len": l, "s0": starts[i], "c": c, "a": a, "b": b, "k": k},
                                    R if r is None else [int(r.starts[i]), int(r.lengths[i]), int(r.col_step)], "pos_col_slice")
                        if "col_slice_slice" in kernels:
                            r = guard(lambda: v.col_slice(slice(a, b, k)))
                            for i, l in enumerate(lens):
                                add({"kernel": "col_slice_slice", "len": l, "s0": starts[i], "c": c, "a": a, "b": b, "k": k},
                                    R if r is None else [int(r.starts[i]), int(r.lengths[i]), int(r.col_step)], "col_slice_slice")
    if "col_slice_int" in kernels:
        for c in (1, 2):
            for sub in ([0, 1, 2, 3, 4], [1, 2, 3], [3, 4], [4]):
                v = RaggedView2(np.array([starts[i] for i in sub]), np.array([lens[i] for i in sub]), c)
                for idx in range(-7, 7):
                    r = guard(lambda: v.col_slice(idx))
                    # row-projection convention: the real guard fires for the whole selection iff it fires for some row
                    per_row = []
                    for i in sub:
                        per_row.append({"kernel": "col_slice_int", "len": lens[i], "s0": starts[i], "c": c, "idx": idx})
                    exp_rows = None if r is None else [[int(r.starts[j]), int(r.lengths[j])] for j in range(len(sub))]
                    add({"kernel": "__group__", "rows": per_row}, exp_rows, "col_slice_int")
    if "rl_slice_bounds" in kernels:
        captured = []
        orig = RunLengthArray._start_to_end
        def spy(self, start, end):
            captured.append((int(start), int(end)))
            return orig(self, start, end)
        RunLengthArray._start_to_end = spy
        try:
            for n in (1, 2, 3, 5):
                rla = RunLengthArray.from_array(np.arange(n) // 2)
                for a in _opt(range(-(n + 3), n + 4)):
                    for b in _opt(range(-(n + 3), n + 4)):
                        for k in (None, 1, 2, 3, -1, -2, -3):
                            captured.clear()
                            res = guard(lambda: rla[slice(a, b, k)])
                            kk = 1 if k is None else k
                            if captured:
                                exp = [captured[0][0], captured[0][1], kk, False]
                            else:
                                exp = "empty"
                            add({"kernel": "rl_slice_bounds", "n": n, "a": a, "b": b, "k": k}, exp, "rl_slice_bounds")
        finally:
            RunLengthArray._start_to_end = orig
    if "ht_hash" in kernels:
        for m in (1, 2, 3, 7, 10):
            t = HashTable([0], [0], mod=m)
            for key in list(range(-25, 26)) + [2 ** 62, -(2 ** 62), 2 ** 62 + 1]:
                add({"kernel": "ht_hash", "m": m, "key": key}, int(t._get_hash(np.int64(key))), "ht_hash")
        for n in range(1, 9):
            t = HashTable(list(range(n)), 0)
            add({"kernel": "ht_mod", "n": n}, int(t._mod), "ht_hash")
    if "bit_addr" in kernels:
        from npstructures.bitarray import BitArray
        for b in (1, 2, 4, 8, 16, 32):
            n = 64 // b + 3
            vals = (np.arange(n) * 5 + 1) % (2 ** min(b, 16))
            ba = BitArray.pack(vals.astype(np.uint64), b)
            for idx in range(n):
                # the real method's value, reproduced from the generated (register, position) pair on the real registers
                add({"kernel": "bit_addr", "off": int(ba._offset), "npr": int(ba._n_entries_per_register), "idx": idx},
                    ("bit", ba, idx), "bit_addr")
    if "w32" in kernels:
        w32_requests(add, guard, R)
    # expand groups
    flat, index = [], []
    for r in reqs:
        if r.get("kernel") == "__group__":
            index.append((len(flat), len(r["rows"])))
            for q in r["rows"]:
                q["op"] = "K.eval"; flat.append(q)
        else:
            index.append((len(flat), 1)); flat.append(r)
    got = engine.run_driver(flat)
    bad = []
    for (off, cnt), r, e, tag in zip(index, reqs, exps, tags):
        g = got[off:off + cnt]
        if r.get("kernel") == "__group__":
            model = None if any(isinstance(x, dict) for x in g) else g
            if model != e:
                bad.append({"kernel": tag, "request": r["rows"][:2], "generated": model, "real": e})
        elif tag == "bit_addr":
            _, ba, idx = e
            ri, ro = g[0]
            val = (int(ba._data[ri]) >> (ro * int(ba._bit_stride))) & int(ba._mask) if 0 <= ri < len(ba._data) else None
            real = int(ba[idx])
            if val != real:
                bad.append({"kernel": tag, "request": r, "generated": [ri, ro, val], "real": real})
        elif tag == "rl_slice_bounds":
            x = g[0]
            if e == "empty":
                ok = bool(x[3])
            else:
                ok = (not x[3]) and x[:3] == e[:3]
            if not ok:
                bad.append({"kernel": tag, "request": r, "generated": x, "real": e})
        elif g[0] != e:
            bad.append({"kernel": tag, "request": r, "generated": g[0], "real": e})
    return len(flat), bad
