#!/venv/bin/python
"""./check <ID> [quick|thorough] [--replay file]"""
import sys, os, importlib
sys.dont_write_bytecode = True
HERE = os.path.dirname(os.path.abspath(__file__))
sys.path.insert(0, HERE)
import engine

def main():
    if len(sys.argv) < 2:
        print("usage: check <ID> [quick|thorough] [--replay file]"); sys.exit(2)
    pid = sys.argv[1].upper()
    try:
        prop = importlib.import_module(f"props.{pid.lower()}")
    except ModuleNotFoundError:
        print(f"no check for {pid}"); sys.exit(2)
    engine.main(prop)

if __name__ == "__main__":
    main()
