#!/bin/sh
# evaluation helper: run ONE check against a seeded change (or the unchanged library: seed name "clean") with private copies of the
# library, the Lean project and the output directory -- nothing under /verif or /repo is written
# usage: [TIER=thorough] tools/tryseed2.sh <seed name|clean> <check id> [VERIF_SEED ...]
NAME="$1"; CHK="$2"; shift 2
D=/root/scratch/tryseed2_${NAME}_${CHK}_${TIER:-quick}
rm -rf "$D"; mkdir -p "$D"
rsync -a --exclude .git --exclude docs --exclude docs_source /repo/ "$D/repo/"
if [ "$NAME" != clean ]; then (cd "$D/repo" && patch -p1 -s < /verif/seeded/$NAME/patch.diff) || exit 2; fi
rsync -a /verif/lean/ "$D/lean/"
cd /verif
for sd in ${@:-0}; do
  VERIF_SEED=$sd NPS_REPO="$D/repo" VERIF_OUT_DIR="$D/out" VERIF_LEAN_DIR="$D/lean" ./check $CHK ${TIER:-quick} 2>&1 | grep -v "^KNOWN\|Warning\|warn" | grep "no-failing-input-found\|INFRA\|^C[0-9][0-9] " | sort -u | cut -c1-170
done
rm -rf "$D"
