#!/venv/bin/python
"""Confirms a seeded breaking change and runs the property's checks against it.
usage: seedeval.py <seed-out-dir, e.g. /tmp/seed/C07/_out/A> <name, e.g. C07-A> [extra check ids ...]
Applies patch.diff to /repo, runs the pinned suite and the demo, runs ./check <ID> quick (and the extra
ids), ALWAYS undoes the patch (git checkout -- .), runs the demo again, and stores everything under
/verif/seeded/<name>/ (patch.diff, demo.py, meta.json)."""
import sys, os, json, subprocess, shutil, time

VERIF = os.path.dirname(os.path.dirname(os.path.abspath(__file__)))
REPO = "/repo"


def sh(cmd, cwd=None, timeout=3000):
    p = subprocess.run(cmd, shell=True, cwd=cwd, stdout=subprocess.PIPE, stderr=subprocess.STDOUT, text=True, timeout=timeout)
    return p.returncode, "\n".join(l for l in p.stdout.splitlines() if "conda" not in l.lower())


def main():
    src, name = sys.argv[1], sys.argv[2]
    pid = name.split("-")[0]
    ids = [pid] + sys.argv[3:]
    meta = json.load(open(os.path.join(src, "meta.json"))) if os.path.exists(os.path.join(src, "meta.json")) else {}
    patch = os.path.join(src, "patch.diff")
    demo = os.path.join(src, "demo.py")
    res = {"ran": []}
    rc, out = sh("git status --porcelain", REPO)
    assert out.strip() == "", "/repo is not clean: " + out
    rc, out = sh(f"git apply --check {patch}", REPO)
    if rc != 0:
        print("patch does not apply:", out); sys.exit(2)
    # the demonstration runs in the seed's own scratch worktree (it locates the library relative to itself);
    # the checks run against /repo
    wt = os.path.abspath(os.path.join(src, "..", ".."))
    rel_demo = os.path.relpath(demo, wt)
    try:
        sh(f"git apply {patch}", REPO)
        sh(f"git apply {patch}", wt)
        rc, out = sh("/venv/bin/python -m pytest -q -p no:cacheprovider -x 2>&1 | tail -3", REPO)
        res["suite_with_patch"] = out.strip().splitlines()[-1] if out.strip() else ""
        res["suite_passes_with_patch"] = (" failed" not in res["suite_with_patch"]) and ("passed" in res["suite_with_patch"])
        rc, out = sh(f"/venv/bin/python {rel_demo}", wt)
        res["demo_rc_with_patch"] = rc
        res["demo_output_with_patch"] = out[-600:]
        res["checks"] = {}
        for cid in ids:
            t = time.time()
            rc, out = sh(f"./check {cid} quick", VERIF)
            lines = [l for l in out.splitlines() if l.startswith("VIOLATION") or l.startswith("KNOWN-FINDING") or l.startswith("INFRA")]
            res["checks"][cid] = {"exit": rc, "lines": [l[:300] for l in lines[:4]], "summary": out.splitlines()[-1][:300] if out else "", "wall_s": round(time.time() - t, 1)}
            # keep the first replay as illustration
            for l in lines:
                if l.startswith("VIOLATION") and "replay=" in l:
                    rp = l.split("replay=")[1].split()[0]
                    if os.path.exists(rp):
                        try:
                            res["checks"][cid]["replay_case"] = json.load(open(rp)).get("case")
                        except Exception:
                            pass
                    break
    finally:
        sh("git checkout -- .", REPO)
        sh("git checkout -- .", wt)
    rc, out = sh(f"/venv/bin/python {rel_demo}", wt)
    res["demo_rc_without_patch"] = rc
    # regenerate kernels for the clean tree
    sh("/venv/bin/python -c \"import sys; sys.path.insert(0,'tools'); import translate; translate.regenerate('/repo','lean')\"", VERIF)
    dst = os.path.join(VERIF, "seeded", name)
    os.makedirs(dst, exist_ok=True)
    shutil.copy(patch, os.path.join(dst, "patch.diff"))
    shutil.copy(demo, os.path.join(dst, "demo.py"))
    confirmed = res.get("suite_passes_with_patch") and res.get("demo_rc_with_patch") == 1 and res.get("demo_rc_without_patch") == 0
    meta.update({"property": pid, "confirmed": bool(confirmed), "what_i_ran": [
        "git -C /repo apply patch.diff", "cd /repo && /venv/bin/python -m pytest -q -p no:cacheprovider",
        "cd /repo && /venv/bin/python demo.py", *[f"./check {c} quick" for c in ids], "git -C /repo checkout -- .", "cd /repo && /venv/bin/python demo.py"],
        "results": res, "detected_by": [c for c, r in res.get("checks", {}).items() if r["exit"] == 1]})
    json.dump(meta, open(os.path.join(dst, "meta.json"), "w"), indent=1)
    print(name, "confirmed" if confirmed else "NOT-CONFIRMED", "suite:", res.get("suite_with_patch"), "demo:", res.get("demo_rc_with_patch"), res.get("demo_rc_without_patch"),
          "detected_by:", meta["detected_by"], {c: r["exit"] for c, r in res.get("checks", {}).items()})


if __name__ == "__main__":
    main()
