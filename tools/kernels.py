"""Sidecar manifest of the kernels translated from /repo's source on every run (see translate.py)."""
from translate import INT, BOOL, OPT

V2_ROW = {"self.lengths": "len", "self.starts": "start0", "self.col_step": "cstep",
          "self.ends": "(view2_ends len start0 cstep)"}
V2_PARAMS = [("len", INT), ("start0", INT), ("cstep", INT)]

KERNELS = [
    dict(name="view2_ends", file="npstructures/raggedshape.py", qual="RaggedView2.ends",
         rowvars={k: v for k, v in V2_ROW.items() if k != "self.ends"}, rowparams=V2_PARAMS, params={},
         type="Int", note="K4: index one past the last cell of a (start, len, step) row"),
    dict(name="calc_lengths", file="npstructures/raggedshape.py", qual="RaggedView2._calculate_lengths",
         rowvars={"self.lengths": "len"}, rowparams=[("len", INT)],
         params={"col_slice.start": ("cs_start", OPT), "col_slice.stop": ("cs_stop", OPT), "col_slice.step": ("cs_step", OPT)},
         type="Int", note="K1: row length after a column slice (used for negative steps)"),
    dict(name="pos_col_slice", file="npstructures/raggedshape.py", qual="RaggedView2._pos_col_slice",
         rowvars=V2_ROW, rowparams=V2_PARAMS,
         params={"col_slice.start": ("cs_start", OPT), "col_slice.stop": ("cs_stop", OPT), "col_slice.step": ("cs_step", INT)},
         type="Int × Int × Int", note="K2: (start, length, step) of a row after a positive-step column slice"),
    dict(name="col_slice_slice", file="npstructures/raggedshape.py", qual="RaggedView2.col_slice",
         rowvars=V2_ROW, rowparams=V2_PARAMS,
         params={"col_slice.start": ("cs_start", OPT), "col_slice.stop": ("cs_stop", OPT), "col_slice.step": ("cs_step", OPT)},
         static={"isinstance(col_slice, Number)": False},
         calls={"self._pos_col_slice": dict(kernel="pos_col_slice", type="Int × Int × Int",
                                            args=[("row", "len"), ("row", "start0"), ("row", "cstep"),
                                                  ("slice", 0, 0, OPT), ("slice", 0, 1, OPT), ("slice", 0, 2, INT)]),
                "self._calculate_lengths": dict(kernel="calc_lengths", type="Int",
                                                args=[("row", "len"), ("slice", 0, 0, OPT), ("slice", 0, 1, OPT), ("slice", 0, 2, OPT)])},
         type="Int × Int × Int", note="K3: slice branch of col_slice"),
    dict(name="col_slice_int", file="npstructures/raggedshape.py", qual="RaggedView2.col_slice",
         rowvars=V2_ROW, rowparams=V2_PARAMS, params={"col_slice": ("idx0", INT)},
         static={"isinstance(col_slice, Number)": True}, can_raise=True,
         type="Option (Int × Int)", note="K3: integer branch of col_slice, with its refusal guard (per row)"),
    dict(name="rl_slice_bounds", file="npstructures/runlengtharray.py", qual="RunLengthArray._get_slice",
         rowvars={}, rowparams=[("n", INT)], lens={"self": "n"},
         params={"s.start": ("s_start", OPT), "s.stop": ("s_stop", OPT), "s.step": ("s_step", OPT)},
         slices={"s": ("s.start", "s.stop", "s.step")},
         stop_before="$first_returning_if", returns=["start", "end", "step", "$test"],
         type="Int × Int × Int × Bool",
         note="K8: slice normalisation of RunLengthArray._get_slice up to its emptiness test: (start, end, step, is_empty)"),
    dict(name="ht_hash", file="npstructures/hashtable.py", qual="HashTable._get_hash",
         rowvars={"self._mod": "m"}, rowparams=[("m", INT)], params={"keys": ("k", INT)},
         type="Int", note="K10: bucket of a key (Python's % : the result has the sign of the modulus)"),
    dict(name="ht_mod", file="npstructures/hashtable.py", qual="HashTable._get_mod",
         rowvars={"keys.size": "n"}, rowparams=[("n", INT)], params={}, ctor=[], calls={},
         identity_calls=["self.dtype", "self._fit_mod"],
         type="Int", note="K10: default modulus for n keys (the cap of the F11d repair, HashTable._fit_mod, is the identity whenever 2n-1 fits the key dtype; "
                          "beyond that any modulus >= 1 serves and the theorems quantify over every modulus)"),
    dict(name="bit_addr", file="npstructures/bitarray.py", qual="BitArray.__getitem__",
         rowvars={"self._offset": "off", "self._n_entries_per_register": "npr"}, rowparams=[("off", INT), ("npr", INT)],
         params={"idx": ("idx", INT)}, static={"isinstance(idx, list)": False}, identity_calls=["self._dtype"],
         stop_before="if isinstance(idx, Number)", returns=["register_idx", "register_offset"],
         type="Int × Int", note="K11: register number and in-register position of element idx"),
]


def fallback(spec):
    """definition used when the translator rejects the current source of a kernel: delegate to the
    reference kernel so that the library still compiles; the check reports the broken obligation."""
    params = list(spec.get("rowparams", [])) + [v for v in spec.get("params", {}).values()]
    sig = " ".join(f"({n} : {t})" for n, t in params)
    args = " ".join(n for n, _ in params)
    return (f"/-- TRANSLATOR ERROR for this kernel: delegating to the reference kernel -/\n"
            f"def {spec['name']} {sig} : {spec['type']} := Gen.Ref.{spec['name']} {args}\n"
            f"def {spec['name']}_pre {sig} : Bool := Gen.Ref.{spec['name']}_pre {args}\n")
