#!/venv/bin/python
"""Evaluation tooling (not a check): re-runs the property checks against the seeded breaking changes kept under seeded/
with the CURRENT machinery, without touching /repo, /verif/lean or the evidence files.
usage: reeval.py [<name> ...]      (default: every seeded/<Cxx-Y>)      env REEVAL_EXTRA=1: also run the related checks;
env REEVAL_SEEDS="0 1 2": every check is run once per VERIF_SEED and a seed counts as detected only if EVERY run reports it
Each patch is applied to a scratch copy of /repo; the checks run from a frozen snapshot of the machinery under
/root/scratch/reeval with NPS_REPO pointing at the patched copy.  Result: seeded/reeval_results.json
({name: {applies, suite, detected_by, checks}}) -- a seed whose patch no longer applies to the repaired library is listed
as such (it has to be rebased by hand)."""
import sys, os, json, subprocess, shutil, glob

VERIF = os.path.dirname(os.path.dirname(os.path.abspath(__file__)))
SCR = os.environ.get("REEVAL_SCR", "/root/scratch/reeval")      # (several instances may run side by side on disjoint seed lists)
RELATED = {"C01": ["C08"], "C02": ["C03"], "C03": ["C02", "C06", "C10"], "C04": ["C05"], "C05": ["C09"], "C06": ["C10", "C04", "C07", "C03"], "C07": ["C06"],
           "C08": ["C01"], "C09": ["C05"], "C10": ["C06", "C08"], "C11": ["C12"], "C12": ["C11"], "C13": [], "C14": ["C15"], "C15": ["C14"],
           "C16": ["C14"], "C17": ["C16"], "C18": [], "C19": ["C02"]}


def sh(cmd, cwd=None, timeout=3000, env=None):
    p = subprocess.run(cmd, shell=True, cwd=cwd, stdout=subprocess.PIPE, stderr=subprocess.STDOUT, text=True, timeout=timeout, env=env)
    return p.returncode, p.stdout


def main():
    names = sys.argv[1:] or sorted(os.path.basename(d) for d in glob.glob(VERIF + "/seeded/C??-?"))
    snap = SCR + "/verif"
    shutil.rmtree(SCR, ignore_errors=True)
    os.makedirs(snap)
    for part in ("lean", "tools"):
        sh(f"rsync -a --exclude __pycache__ {VERIF}/{part}/ {snap}/{part}/")
    shutil.copy(VERIF + "/known_findings.json", snap + "/known_findings.json")
    out_path = os.environ.get("REEVAL_OUT", VERIF + "/seeded/reeval_results.json")
    results = json.load(open(out_path)) if os.path.exists(out_path) and sys.argv[1:] else {}
    for name in names:
        patch = f"{VERIF}/seeded/{name}/patch.diff"
        shutil.rmtree(SCR + "/repo", ignore_errors=True)
        sh(f"rsync -a --exclude .git --exclude docs --exclude docs_source --exclude benchmarks --exclude profiling --exclude __pycache__ /repo/ {SCR}/repo/")
        rc, out = sh(f"patch -p1 --no-backup-if-mismatch < {patch}", SCR + "/repo")
        if rc != 0:
            results[name] = {"applies": False, "detail": out[-400:]}
            print(name, "PATCH DOES NOT APPLY", flush=True)
            continue
        rc, out = sh("/venv/bin/python -m pytest -q -p no:cacheprovider 2>&1 | tail -1", SCR + "/repo")
        res = {"applies": True, "suite": out.strip(), "checks": {}, "detected_by": []}
        env = {**os.environ, "NPS_REPO": SCR + "/repo", "PYTHONDONTWRITEBYTECODE": "1"}
        env.pop("VERIF_LEAN_DIR", None); env.pop("VERIF_OUT_DIR", None)
        pid = name.split("-")[0]
        ids = [pid] + (RELATED[pid] if os.environ.get("REEVAL_EXTRA") else [])
        seeds = os.environ.get("REEVAL_SEEDS", "").split() or [None]
        for cid in ids:
            rcs = []
            for sd in seeds:
                e2 = dict(env) if sd is None else {**env, "VERIF_SEED": sd}
                rc, out = sh(f"/venv/bin/python {snap}/tools/check.py {cid} quick", snap, env=e2)
                rcs.append(rc)
                if rc not in (0, 1):
                    res["checks"][cid + "_tail"] = out[-600:]
            res["checks"][cid] = rcs[0] if len(rcs) == 1 else rcs
            if all(rc == 1 for rc in rcs):
                res["detected_by"].append(cid)
            elif any(rc == 1 for rc in rcs):
                res.setdefault("detected_under_some_seeds_only", []).append(cid)
        results[name] = res
        print(name, res["suite"][:40], "detected_by:", res["detected_by"], {k: v for k, v in res["checks"].items() if not k.endswith("_tail")}, flush=True)
        json.dump(results, open(out_path, "w"), indent=1)
    shutil.rmtree(SCR, ignore_errors=True)
    nd = [n for n, r in results.items() if r.get("applies") and not r["detected_by"]]
    na = [n for n, r in results.items() if not r.get("applies")]
    print("seeds:", len(results), "not detected:", nd, "patch does not apply:", na)


if __name__ == "__main__":
    main()
