"""Straight-line programs over the RaggedArray API (C06, C10): generator, runner on real objects,
reference semantics on plain lists of rows."""
import copy
import numpy as np
import engine
import gens, ragidx

EXTRA_READS = ["repr", "str", "iter", "ravel", "size", "shape", "tolist", "index", "ufunc", "reduce", "nonzero", "equals_self",
               "col_counts", "sum0", "mean0", "colvals", "max", "cumsum", "sort", "unique", "astype", "padded", "lengths", "mean", "allany", "prod", "where"]


def gen_program(rng, n_stmts, max_rows=4, max_len=4, with_assign=True, chain=False):
    """chain=True: derivation chains (each new array derived from the most recent one with probability 0.75) followed by
    writes into arbitrary earlier arrays and no intermediate reads -- the histories on which a derived array that still
    shared storage with an INTERMEDIATE array would show (b = a[..]; c = b[..]; b[..] = v; read c)."""
    counter = [100]
    def fresh():
        counter[0] += 1
        return counter[0]
    prog = []
    shapes = []      # row lengths of every variable according to the reference semantics (None = statement refused)
    vals = []        # reference rows (kept to choose sensible indices)
    store = RefStore()
    def add(st):
        prog.append(st)
        store.step(st)
    k0 = rng.choice([1, 1, 2])
    for _ in range(k0):
        lens = gens.shape_random(rng, max_rows, max_len) if rng.random() < 0.6 else rng.choice(gens.shapes_exhaustive(3, 3))
        if rng.random() < 0.1:
            lens = [rng.choice([0, 1, 1]) for _ in range(rng.randint(1, 4))]      # no row with more than one cell
        rows = [[fresh() % 50 for _ in range(l)] for l in lens]
        # the numpy array the RaggedArray is constructed over (the constructor does not copy): contiguous, or a strided /
        # reversed / column view of a larger array; `poke` statements write through it
        add({"s": "new", "rows": rows, "base": rng.choice(["plain", "plain", "stride2", "rev", "col"])})
    for _ in range(n_stmts):
        live = [i for i in range(len(store.vars)) if store.vars[i] is not None]
        if not live:
            break
        x = rng.choice(live)
        if chain:
            n_deriv = max(2, (2 * n_stmts) // 3)
            if _ < n_deriv:
                if rng.random() < 0.75:
                    x = live[-1]
                kind = rng.choice(["select", "select", "select", "select", "add_scalar", "concat1", "sort", "alias", "astype", "unique"])
            else:
                kind = rng.choice(["assign", "assign", "poke", "fill"])
        else:
            kind = rng.choice(["select", "select", "select", "alias", "add_scalar", "add_arrays", "concat", "concat1", "astype", "sort", "cumsum", "diff", "unique",
                               "read", "read", "read_idx", "read_sum", "read_meta", "read_col"] + (["assign", "assign", "assign", "poke", "fill"] if with_assign else []))
        rows = store.val(x)
        n, m = len(rows), max([len(r) for r in rows], default=0)
        if kind == "select":
            r = ragidx.rowsel_random(n, rng)
            if n > 0 and rng.random() < 0.12:       # as many rows as the source, with repeats (a resample)
                r = {"t": "list", "is": [rng.randrange(n) for _ in range(n)]}
            elif r["t"] in ("int", "all") or (chain and rng.random() < 0.5):
                # a[...] / a[()] are whole-array ALIASES by design (statement `alias`); a selection of all rows is a[:]
                r = {"t": "slice", "a": None, "b": None, "k": rng.choice([None, None, -1, 2]) if chain else None}
            c = None
            if rng.random() < 0.08:
                # a two-slice selection that keeps every row and every column, in one of its many spellings (a[:, :], a[0:n, 0:],
                # a[-n:, ::1]): still a selection with its own cells, not an alias
                r = rng.choice([{"t": "slice", "a": None, "b": None, "k": None}, {"t": "slice", "a": 0, "b": n, "k": None},
                                {"t": "slice", "a": -n if n else None, "b": None, "k": 1}])
                c = rng.choice([{"t": "slice", "a": None, "b": None, "k": None}, {"t": "slice", "a": 0, "b": None, "k": None},
                                {"t": "slice", "a": None, "b": None, "k": 1}, {"t": "slice", "a": 0, "b": m + 1, "k": 1}])
            elif rng.random() < (0.3 if chain else 0.6):
                c = ragidx.colsel_random(m, rng)
                if c["t"] == "int":
                    c = {"t": "slice", "a": c["i"], "b": None, "k": rng.choice([None, 1, -1, 2])}
            add({"s": "select", "x": x, "idx": {"r": r, "c": c}})
        elif kind == "alias":
            add({"s": "alias", "x": x})
        elif kind == "add_scalar":
            add({"s": "add_scalar", "x": x, "c": rng.randint(-3, 9)})
        elif kind in ("add_arrays", "concat"):
            same = [i for i in live if [len(r) for r in store.val(i)] == [len(r) for r in rows]]
            y = rng.choice(same) if (kind == "add_arrays" and rng.random() < 0.85) else rng.choice(live)
            add({"s": kind, "x": x, "y": y})
        elif kind in ("sort", "cumsum", "diff", "concat1", "astype", "unique"):
            add({"s": kind, "x": x})
        elif kind == "fill":
            add({"s": "fill", "x": x, "v": 700 + fresh() % 50})
        elif kind == "read_col":
            add({"s": "read_col", "x": x, "j": rng.randint(0, max(0, m - 1)) if m else 0})
        elif kind == "assign":
            r = ragidx.rowsel_random(n, rng)
            if r["t"] == "list":
                norm = [i if i >= 0 else n + i for i in r["is"]]
                if len(set(norm)) != len(norm):
                    r = {"t": "all"}
            c = ragidx.colsel_random(m, rng) if rng.random() < 0.5 else None
            idx = {"r": r, "c": c}
            if chain and rng.random() < 0.5:
                idx = {"r": {"t": "all"}, "c": None}
            add({"s": "assign", "x": x, "idx": idx, "val": ragidx.value_for_selection(rng, [len(rr) for rr in rows], idx, fresh)})
        elif kind == "poke":
            size = sum(len(r) for r in rows)
            add({"s": "poke", "x": x, "k": rng.randint(0, size if rng.random() < 0.1 else max(0, size - 1)), "v": 500 + fresh() % 50})
        elif kind == "read_idx":
            r = ragidx.rowsel_random(n, rng)
            c = ragidx.colsel_random(m, rng) if rng.random() < 0.5 else None
            add({"s": "read_idx", "x": x, "idx": {"r": r, "c": c}})
        else:
            add({"s": kind, "x": x})
    # final reads of every variable: every derived array must equal a fresh array of the reference rows
    for i in range(len(store.vars)):
        if store.vars[i] is not None:
            prog.append({"s": "read", "x": i})
            if rng.random() < 0.5:
                prog.append({"s": "read_meta", "x": i})
    return prog


def gen_resample_program(rng):
    """a source whose metadata may have been read, a selection with as many rows as the source but repeats (a resample),
    then everything that depends on the selection's own size / lengths"""
    lens = gens.shape_random(rng, 7, 4)
    if len(lens) < 2 or len(set(lens)) < 2:
        lens = [3, 0, 1, 2]
    n = len(lens)
    cnt = [0]
    def fresh():
        cnt[0] += 1; return 300 + cnt[0]
    rows = [[fresh() % 70 for _ in range(l)] for l in lens]
    prog = [{"s": "new", "rows": rows, "base": rng.choice(["plain", "stride2"])}]
    if rng.random() < 0.7:
        prog.append({"s": rng.choice(["read_meta", "read_sum", "read"]), "x": 0})
    prog.append({"s": "select", "x": 0, "idx": {"r": {"t": "list", "is": [rng.randrange(n) for _ in range(n)]}, "c": None}})
    tail = [{"s": "read_meta", "x": 1}, {"s": "read", "x": 1}, {"s": "read_sum", "x": 1}, {"s": "cumsum", "x": 1}, {"s": "read", "x": 2},
            {"s": "add_scalar", "x": 1, "c": 1}, {"s": "read_meta", "x": 0}]
    rng.shuffle(tail)
    # `read x2` refers to the cumsum result only if cumsum comes before it; keep the statements well-scoped
    out, made = [], 2
    for st in tail:
        if st["s"] in ("cumsum", "add_scalar"):
            out.append(st); out.append({"s": "read", "x": made}); made += 1
        elif st.get("x", 0) <= 1:
            out.append(st)
    return prog + out


def gen_empty_selection_program(rng):
    """a selection that keeps at least one row but not a single cell (a column range beyond every row, rows that are all empty),
    and then -- before anything else has looked at it -- an integer row / an element-wise read / a further selection of it"""
    lens = [rng.choice([0, 0, 1, 2, 3]) for _ in range(rng.randint(2, 5))]
    if 0 not in lens:
        lens[rng.randrange(len(lens))] = 0
    if sum(lens) == 0:
        lens[0] = 2
    n = len(lens)
    cnt = [0]
    def fresh():
        cnt[0] += 1; return 400 + cnt[0]
    rows = [[fresh() % 70 for _ in range(l)] for l in lens]
    empties = [i for i, l in enumerate(lens) if l == 0]
    m = max(lens)
    sel = rng.choice([
        {"r": {"t": "all"}, "c": {"t": "slice", "a": m + rng.randint(0, 3), "b": None, "k": rng.choice([None, 2, 3])}},
        {"r": {"t": "all"}, "c": {"t": "slice", "a": None, "b": -1 - m, "k": -1}},
        {"r": {"t": "list", "is": [rng.choice(empties) for _ in range(rng.randint(1, 3))]}, "c": None},
        {"r": {"t": "slice", "a": empties[0], "b": empties[0] + 1, "k": None}, "c": {"t": "slice", "a": None, "b": None, "k": -1}},
        {"r": {"t": "slice", "a": 1, "b": None, "k": None}, "c": {"t": "slice", "a": m, "b": None, "k": None}}])
    prog = [{"s": "new", "rows": rows}, {"s": "select", "x": 0, "idx": sel}]
    first = rng.choice(["row", "row", "row_neg", "sub", "sum", "read"])
    if first in ("row", "row_neg"):
        prog.append({"s": "read_idx", "x": 1, "idx": {"r": {"t": "int", "i": 0 if first == "row" else -1}, "c": None}})
    elif first == "sub":
        prog.append({"s": "select", "x": 1, "idx": {"r": {"t": "slice", "a": None, "b": None, "k": -1}, "c": None}})
        prog.append({"s": "read", "x": 2})
    elif first == "sum":
        prog.append({"s": "read_sum", "x": 1})
    prog.append({"s": "read", "x": 1})
    prog.append({"s": "read_meta", "x": 1})
    return prog


def gen_mixed_concat_program(rng):
    """arrays of DIFFERENT integer element types (a narrow one, an int64 one whose cells do not fit the narrow one), possibly
    derived, concatenated in either order; then everything that reads the concatenation. The rows of the result are the rows of
    the operands whatever their element types (numpy promotes)."""
    narrow = rng.choice(["int8", "int16", "int32", "uint8", "uint16", "bool"])
    la = gens.shape_random(rng, 4, 3); lb = gens.shape_random(rng, 4, 3)
    if sum(lb) == 0:
        lb = [2, 0, 1]
    if sum(la) == 0:
        la = [1, 2]
    cnt = [0]
    def small():
        cnt[0] += 1
        return cnt[0] % 2 if narrow == "bool" else (cnt[0] * 7) % 100
    wide = [300, -70000, 2 ** 40 + 3, -129, 65536, 2 ** 31, -2 ** 33 - 1]
    prog = [{"s": "new", "rows": [[small() for _ in range(l)] for l in la], "dt": narrow},
            {"s": "new", "rows": [[rng.choice(wide) for _ in range(l)] for l in lb]}]
    a, b, nxt = 0, 1, 2
    if rng.random() < 0.5:
        prog.append({"s": "select", "x": 0, "idx": {"r": {"t": "slice", "a": None, "b": None, "k": rng.choice([None, -1])}, "c": None}})
        a = nxt; nxt += 1
    if rng.random() < 0.3:
        prog.append({"s": "select", "x": 1, "idx": {"r": {"t": "slice", "a": None, "b": None, "k": rng.choice([None, -1])}, "c": None}})
        b = nxt; nxt += 1
    x, y = (a, b) if rng.random() < 0.7 else (b, a)
    prog.append({"s": "concat", "x": x, "y": y})
    c = nxt; nxt += 1
    tail = [{"s": "read", "x": c}, {"s": "read_sum", "x": c}, {"s": "read_meta", "x": c}]
    if rng.random() < 0.5:
        tail.append({"s": "select", "x": c, "idx": {"r": {"t": "slice", "a": None, "b": None, "k": -1}, "c": None}})
        tail.append({"s": "read", "x": nxt})
    rng.shuffle(tail[:3])
    return prog + tail + [{"s": "read", "x": 0}, {"s": "read", "x": 1}]


class RefStore:
    """reference semantics: every variable denotes a cell holding plain rows; aliases share the cell"""
    def __init__(self):
        self.cells = []
        self.vars = []

    def val(self, x):
        if x >= len(self.vars) or self.vars[x] is None:
            raise ragidx.Refused()
        return self.cells[self.vars[x]]

    def alloc(self, rows):
        self.cells.append(rows)
        self.vars.append(len(self.cells) - 1)
        return True

    def step(self, st):
        """returns the observation (canonical python value)"""
        s = st["s"]
        try:
            if s == "new":
                return self.alloc([list(r) for r in st["rows"]])
            rows = self.val(st["x"])
            if s == "select":
                kind, v = ragidx.oracle_getitem(rows, st["idx"])
                if kind != "ragged":
                    raise ragidx.Refused()
                return self.alloc([list(r) for r in v])
            if s == "alias":
                self.vars.append(self.vars[st["x"]]); return True
            if s == "add_scalar":
                return self.alloc([[v + st["c"] for v in r] for r in rows])
            if s == "add_arrays":
                other = self.val(st["y"])
                if [len(r) for r in other] != [len(r) for r in rows]:
                    raise ragidx.Refused()
                return self.alloc([[a + b for a, b in zip(r, o)] for r, o in zip(rows, other)])
            if s == "concat":
                other = self.val(st["y"])
                return self.alloc([list(r) for r in rows] + [list(r) for r in other])
            if s in ("concat1", "astype"):   # np.concatenate([x]) / x.astype(x.dtype): a new array with the same rows
                return self.alloc([list(r) for r in rows])
            if s == "fill":
                self.cells[self.vars[st["x"]]] = [[st["v"]] * len(r) for r in rows]
                return True
            if s == "read_col":
                return [r[st["j"]] for r in rows if len(r) > st["j"]]
            if s == "sort":
                return self.alloc([sorted(r) for r in rows])
            if s == "unique":
                return self.alloc([sorted(set(r)) for r in rows])
            if s == "cumsum":
                return self.alloc([list(np.cumsum(r).tolist()) if r else [] for r in rows])
            if s == "diff":
                return self.alloc([list(np.diff(r).tolist()) if len(r) > 1 else [] for r in rows])
            if s == "assign":
                new = ragidx.assign_rows(rows, st["idx"], st["val"])
                if new is None:
                    return None
                self.cells[self.vars[st["x"]]] = new
                return True
            if s == "poke":
                k = st["k"]
                if k >= sum(len(r) for r in rows):
                    return False
                new = [list(r) for r in rows]
                for r in new:
                    if k < len(r):
                        r[k] = st["v"]; break
                    k -= len(r)
                self.cells[self.vars[st["x"]]] = new
                return True
            if s == "read":
                return [list(r) for r in rows]
            if s == "read_idx":
                kind, v = ragidx.oracle_getitem(rows, st["idx"])
                return [kind, v]
            if s == "read_sum":
                return [sum(r) for r in rows]
            if s == "read_meta":
                return [len(rows), sum(len(r) for r in rows), [len(r) for r in rows]]
        except ragidx.Refused:
            if s in ("read", "read_idx", "read_sum", "read_meta", "read_col"):
                return "refuse"
            if s not in ("assign", "poke", "fill"):
                self.vars.append(None)
            return False
        raise ValueError(st)


def py_value(val):
    from npstructures import RaggedArray
    t, v = val["t"], val["v"]
    if t == "scalar":
        return v
    if t == "flat":
        return np.array(v, dtype=np.int64)
    if t == "column":
        return np.array(v, dtype=np.int64).reshape(-1, 1)
    return RaggedArray(np.array([x for r in v for x in r], dtype=np.int64), [len(r) for r in v])


def _fresh_probe(RaggedArray, x):
    """a read-only probe with no observation of its own (C06, float operands): the array -- however it was derived -- and an
    array freshly built from its rows answer a ufunc with a FLOAT column vector (inf, mixed magnitudes) alike.  The integer
    programs never take a float operand; a derivation that leaves a private flag behind shows up here."""
    n = len(x)
    if n == 0 or x.size == 0:
        return
    col = np.array([[np.inf, 1.0, 1e16, 3.0][i % 4] for i in range(n)], dtype=np.float64).reshape(-1, 1)
    try:
        with np.errstate(all="ignore"):
            fresh = RaggedArray(x.tolist(), dtype=x.dtype)
            got = [repr(np.maximum(x, col).tolist()), repr((x + col).tolist())]
            want = [repr(np.maximum(fresh, col).tolist()), repr((fresh + col).tolist())]
    except Exception:
        return
    if got != want:
        raise engine.Inconsistent("a derived array and a freshly built equal one answer a float column-vector ufunc differently: %s vs %s" % (got, want))


def run_real(prog, extra_reads=None, variant=0):
    """run on real RaggedArray objects; returns the trace (same shape as RefStore observations).
    extra_reads: {position: [(var, kind), ...]} read-only operations inserted BEFORE the statement at
    that position; they produce no observation."""
    from npstructures import RaggedArray
    xs = []
    bases = {}       # variable -> function writing flat cell k through the numpy array the variable was constructed over
    trace = []
    def construct(rows, kind, dt=None):
        data = np.array([v for r in rows for v in r], dtype=np.dtype(dt or "int64"))
        n = len(data)
        if kind == "stride2":
            base = np.full(2 * n + 1, -77, dtype=np.int64); base[:2 * n:2] = data
            view = base[:2 * n:2]
            def poke(k, v): base[2 * k] = v
        elif kind == "rev":
            base = data[::-1].copy(); view = base[::-1]
            def poke(k, v): base[n - 1 - k] = v
        elif kind == "col":
            base = np.full((n, 3), -77, dtype=np.int64); base[:, 1] = data; view = base[:, 1]
            def poke(k, v): base[k, 1] = v
        else:
            base = data; view = data
            def poke(k, v): base[k] = v
        return RaggedArray(view, [len(r) for r in rows]), poke
    def do_extra(v, kind):
        a = xs[v]
        if a is None:
            return
        try:
            if kind == "repr": repr(a)
            elif kind == "str": str(a)
            elif kind == "iter": [r for r in a]
            elif kind == "ravel": a.ravel()
            elif kind == "size": a.size
            elif kind == "shape": a.shape
            elif kind == "tolist": a.tolist()
            elif kind == "index":
                if len(a): a[0]; a[-1:]; a[:, ::-1]
            elif kind == "ufunc": a + 1; a == a
            elif kind == "reduce": a.sum(axis=-1); a.sum()
            elif kind == "nonzero": a.nonzero()
            elif kind == "equals_self": a.equals(a)
            elif kind == "col_counts": a.col_counts()
            elif kind == "sum0": a.sum(axis=0)
            elif kind == "mean0": a.mean(axis=0)
            elif kind == "colvals":
                if len(a) and max(a.lengths) > 0: a.get_column_values(0); a.get_column_values(int(max(a.lengths)) - 1)
            elif kind == "max": a.max(axis=-1); a.argmax(axis=-1)
            elif kind == "cumsum": np.cumsum(a, axis=-1)
            elif kind == "sort": a.sort(axis=-1)
            elif kind == "unique": np.unique(a, axis=-1, return_counts=True)
            elif kind == "astype": a.astype(a.dtype); a.astype(float)
            elif kind == "padded": a.as_padded_matrix()
            elif kind == "lengths": a.lengths; a.shape
            elif kind == "mean": a.mean(axis=-1); np.mean(a, axis=-1); (a * 2).mean(axis=-1)
            elif kind == "allany": a.all(axis=-1); a.any(axis=-1); (a > 3).any(axis=-1)
            elif kind == "prod": a.prod(axis=-1); a.min(axis=-1) if a.size else None
            elif kind == "where": np.where(a > 3, a, 0); a[a > 3]
        except Exception:
            pass
    for pos, st in enumerate(prog):
        for (v, kind) in (extra_reads or {}).get(pos, []):
            if v < len(xs):
                do_extra(v, kind)
        s = st["s"]
        try:
            if s == "new":
                ra, poke = construct(st["rows"], st.get("base", "plain"), st.get("dt"))
                bases[len(xs)] = poke
                xs.append(ra); trace.append(True); continue
            x = xs[st["x"]] if st["x"] < len(xs) else None
            if x is None:
                raise IndexError("no such array")
            if s == "select":
                r = x[ragidx.py_index(st["idx"], variant)]
                if not isinstance(r, RaggedArray):
                    raise TypeError("not ragged")
                xs.append(r); trace.append(True)
            elif s == "alias":
                xs.append(x[...] if variant % 2 == 0 else x[()]); trace.append(True)
            elif s == "add_scalar":
                xs.append(x + st["c"]); trace.append(True)
            elif s == "add_arrays":
                y = xs[st["y"]]
                if y is None: raise IndexError()
                xs.append(x + y); trace.append(True)
            elif s == "concat":
                y = xs[st["y"]]
                if y is None: raise IndexError()
                xs.append(np.concatenate([x, y])); trace.append(True)
            elif s == "concat1":
                xs.append(np.concatenate([x])); trace.append(True)
            elif s == "astype":
                xs.append(x.astype(x.dtype)); trace.append(True)
            elif s == "fill":
                x.fill(st["v"]); trace.append(True)
            elif s == "read_col":
                trace.append([int(v) for v in x.get_column_values(st["j"])])
            elif s == "sort":
                xs.append(x.sort(axis=-1)); trace.append(True)
            elif s == "unique":
                u = np.unique(x, axis=-1, return_counts=True)[0] if variant % 2 else np.unique(x, axis=-1)
                if not isinstance(u, RaggedArray):
                    raise TypeError("not ragged")
                xs.append(u); trace.append(True)
            elif s == "cumsum":
                xs.append(np.cumsum(x, axis=-1)); trace.append(True)
            elif s == "diff":
                xs.append(np.diff(x, axis=-1)); trace.append(True)
            elif s == "assign":
                x[ragidx.py_index(st["idx"], variant)] = py_value(st["val"]); trace.append(True)
            elif s == "poke":
                if not 0 <= st["k"] < x.size:
                    raise IndexError("flat position out of range")
                if st["x"] in bases and variant % 3 != 0:
                    bases[st["x"]](st["k"], st["v"])          # write through the numpy array given to the constructor
                else:
                    x.ravel()[st["k"]] = st["v"]               # write through the flat view
                trace.append(True)
            elif s == "read":
                trace.append([[int(v) for v in r] for r in x.tolist()])
                _fresh_probe(RaggedArray, x)
            elif s == "read_idx":
                r = x[ragidx.py_index(st["idx"], variant)]
                if isinstance(r, RaggedArray):
                    trace.append(["ragged", [[int(v) for v in row] for row in r.tolist()]])
                elif isinstance(r, np.ndarray) and r.ndim >= 1:
                    trace.append(["vec", [int(v) for v in r]])
                else:
                    trace.append(["scalar", int(r)])
            elif s == "read_sum":
                trace.append([int(v) for v in x.sum(axis=-1)])
            elif s == "read_meta":
                trace.append([int(len(x)), int(x.size), [int(v) for v in x.lengths]])
        except engine.Inconsistent:
            raise
        except Exception as e:
            if s in ("read", "read_idx", "read_sum", "read_meta", "read_col"):
                trace.append("refuse")
            else:
                if s not in ("assign", "poke", "fill"):
                    xs.append(None)
                trace.append(False)
    return trace


def run_ref(prog):
    st = RefStore()
    return [st.step(s) for s in prog]
