"""Kernel translator (tie 1): scalar index-arithmetic functions of /repo -> Lean 4 definitions.

Run on every check.  Reads the *text* of /repo's working tree with `ast` (nothing is imported), finds
each function listed in tools/kernels.py and emits one Lean `def` per kernel into
lean/NpsVerif/Gen/Cur.lean (namespace Gen.Cur).  The committed lean/NpsVerif/Gen/Ref.lean holds the
output for the reference tree; lean/NpsVerif/Gen/Bridge/<kernel>.lean proves Cur.k = Ref.k on the
kernel's reachable domain; all property theorems are proved about Ref.

Accepted subset (anything else is a translator error naming file/line/construct -> broken obligation):
  * assignments (incl. tuple unpacking of a literal tuple), augmented assignments |= += -=
  * if / elif / else on scalar conditions; `x is None` / `x is not None` on Option-typed values
  * early `return` / `raise` inside `if` (the rest of the block becomes the else branch)
  * conditional expressions, assert (collected into `<kernel>_pre`), integer / bool / None constants
  * + - * // %, unary -, comparisons, and/or/not, & | ~ on booleans
  * np.minimum np.maximum np.abs np.sign np.where np.asanyarray(identity) np.ones_like(=1) int() abs()
  * `self.__class__(a, b, c)` / declared constructor calls -> tuples; calls of other kernels
Row projection: every per-row vector named in the kernel's `rowvars` becomes a scalar of one row (all
operations on them in these functions are elementwise with scalar broadcasting).  Conventions (part
of the trusted base, validated on an integer box against the real methods by
tools/props/*: kernel validation):  `np.min(v)` of a row vector under a comparison `e >= np.min(v)`
is translated per row (`e >= v`, the L layer takes the disjunction over rows); `len(v)` of a row
vector in a boolean context is `true` (a row exists).
"""
import ast, copy, os, re, textwrap

INT, BOOL, OPT = "Int", "Bool", "Option Int"


class Unsupported(Exception):
    pass


def _path(node):
    if isinstance(node, ast.Name):
        return node.id
    if isinstance(node, ast.Attribute):
        return _path(node.value) + "." + node.attr
    raise Unsupported(f"expression {type(node).__name__} at line {getattr(node, 'lineno', '?')}")


class Tr:
    def __init__(self, spec, file):
        self.spec = spec
        self.file = file
        self.rowvars = dict(spec.get("rowvars", {}))      # 'self.lengths' -> lean expr (Int)
        self.calls = dict(spec.get("calls", {}))          # 'self._pos_col_slice' -> dict(kernel=..., args=[...])
        self.ctor = spec.get("ctor", ["self.__class__"])   # callables translated to tuples
        self.static = dict(spec.get("static", {}))        # source text of a test -> True/False (static branch resolution)
        self.counter = {}
        self.pre = []
        self.can_raise = False
        self.ret_type = None
        self.path = []         # conditions of the enclosing control-flow ifs (for asserts / callee preconditions)
        self.prefix = []       # let-lines of the straight-line path so far (asserts are only supported there)

    def add_pre(self, cond):
        guard = ("(!(" + " && ".join(self.path) + ") || " + cond + ")") if self.path else cond
        self.pre.append("(" + "".join(l.strip() + "; " for l in self.prefix) + guard + ")")

    def err(self, node, what):
        raise Unsupported(f"{self.file}:{getattr(node, 'lineno', '?')}: {what}")

    def fresh(self, base):
        base = re.sub(r"[^A-Za-z0-9_]", "_", base)
        n = self.counter.get(base, 0) + 1
        self.counter[base] = n
        return f"{base}{n}"

    # ------------------------------------------------------------------ expressions
    def expr(self, n, env):
        if isinstance(n, ast.Constant):
            if isinstance(n.value, bool):
                return ("true" if n.value else "false", BOOL)
            if isinstance(n.value, int):
                return (f"({n.value} : Int)", INT)
            if n.value is None:
                return ("(none : Option Int)", OPT)
            self.err(n, f"constant {n.value!r}")
        if isinstance(n, (ast.Name, ast.Attribute)):
            p = _path(n)
            if p in env:
                return env[p]
            if p in self.rowvars:
                return (self.rowvars[p], INT)
            self.err(n, f"unknown name {p}")
        if isinstance(n, ast.UnaryOp):
            e, t = self.expr(n.operand, env)
            if isinstance(n.op, ast.USub) and t == INT:
                return (f"(-{e})", INT)
            if isinstance(n.op, ast.UAdd) and t == INT:
                return (e, INT)
            if isinstance(n.op, (ast.Not, ast.Invert)) and t == BOOL:
                return (f"(!{e})", BOOL)
            self.err(n, "unary operator")
        if isinstance(n, ast.BinOp):
            a, ta = self.expr(n.left, env)
            b, tb = self.expr(n.right, env)
            if ta == tb == BOOL:
                op = {ast.BitAnd: "&&", ast.BitOr: "||", ast.BitXor: "^^"}.get(type(n.op))
                if op:
                    return (f"({a} {op} {b})", BOOL)
            if ta == tb == INT:
                if isinstance(n.op, ast.FloorDiv):
                    return (f"(Int.fdiv {a} {b})", INT)
                if isinstance(n.op, ast.Mod):
                    return (f"(Int.fmod {a} {b})", INT)
                op = {ast.Add: "+", ast.Sub: "-", ast.Mult: "*"}.get(type(n.op))
                if op:
                    return (f"({a} {op} {b})", INT)
            self.err(n, f"binary operator {type(n.op).__name__} on {ta}, {tb}")
        if isinstance(n, ast.Compare):
            if len(n.ops) != 1:
                self.err(n, "chained comparison")
            nt = self.none_test(n, env)
            if nt is not None:
                e, is_none = nt
                return (f"({e}).isNone" if is_none else f"({e}).isSome", BOOL)
            a, ta = self.expr(n.left, env)
            b, tb = self.expr(n.comparators[0], env)
            if ta != tb:
                self.err(n, f"comparison of {ta} with {tb}")
            op = {ast.Lt: "<", ast.LtE: "≤", ast.Gt: ">", ast.GtE: "≥", ast.Eq: "==", ast.NotEq: "!="}.get(type(n.ops[0]))
            if op in ("==", "!="):
                return (f"({a} {op} {b})", BOOL)
            if op and ta == INT:
                return (f"(decide ({a} {op} {b}))", BOOL)
            self.err(n, "comparison")
        if isinstance(n, ast.BoolOp):
            parts = [self.as_bool(v, env) for v in n.values]
            op = "&&" if isinstance(n.op, ast.And) else "||"
            return ("(" + f" {op} ".join(parts) + ")", BOOL)
        if isinstance(n, ast.IfExp) and self.is_none_test(n.test):
            optexpr, is_none = self.none_test(n.test, env)
            var = _safe_path(n.test.left)
            inner = self.fresh((var or "v") + "_v")
            env_some = dict(env)
            if var is not None:
                env_some[var] = (inner, INT)
            nb, sb = (n.body, n.orelse) if is_none else (n.orelse, n.body)
            a, ta = self.expr(nb, env)
            b, tb = self.expr(sb, env_some)
            if ta != tb:
                self.err(n, "conditional expression with differently typed arms")
            return (f"(match {optexpr} with | none => {a} | some {inner} => {b})", ta)
        if isinstance(n, ast.IfExp):
            c = self.as_bool(n.test, env)
            a, ta = self.expr(n.body, env)
            b, tb = self.expr(n.orelse, env)
            if ta != tb:
                self.err(n, "conditional expression with differently typed arms")
            return (f"(if {c} then {a} else {b})", ta)
        if isinstance(n, ast.Tuple):
            parts = [self.expr(e, env) for e in n.elts]
            return ("(" + ", ".join(p[0] for p in parts) + ")", " × ".join(p[1] for p in parts))
        if isinstance(n, ast.Call):
            return self.call(n, env)
        self.err(n, f"expression {type(n).__name__}")

    def as_bool(self, n, env):
        # `len(rowvector)` in a boolean context: a row exists
        if isinstance(n, ast.Call) and _safe_path(n.func) == "len" and len(n.args) == 1 and _safe_path(n.args[0]) in self.rowvars:
            return "true"
        e, t = self.expr(n, env)
        if t != BOOL:
            self.err(n, f"{t} used as a condition")
        return e

    def call(self, n, env):
        f = _safe_path(n.func)
        if f is None:
            self.err(n, "call of a computed function")
        if n.keywords:
            self.err(n, f"keyword arguments in call of {f}")
        if f is not None and f.endswith(".indices") and f[:-len(".indices")] in self.spec.get("slices", {}) and len(n.args) == 1:
            a, b, k = self.spec["slices"][f[:-len(".indices")]]
            ln, tl = self.expr(n.args[0], env)
            return (f"(sliceIndices {ln} {env[a][0]} {env[b][0]} {env[k][0]})", "Int × Int × Int")
        if f in self.spec.get("identity_calls", []) and len(n.args) == 1:
            return self.expr(n.args[0], env)      # a dtype constructor applied to an integer: the integer
        if f in self.ctor:
            parts = [self.expr(a, env) for a in n.args]
            return ("(" + ", ".join(p[0] for p in parts) + ")", " × ".join(p[1] for p in parts))
        if f in self.calls:
            c = self.calls[f]
            args = self.call_args(n, c, env)
            self.add_pre(f"({c['kernel']}_pre {' '.join(args)})")
            return (f"({c['kernel']} {' '.join(args)})", c["type"])
        if f == "len" and len(n.args) == 1 and _safe_path(n.args[0]) in self.spec.get("lens", {}):
            return (self.spec["lens"][_safe_path(n.args[0])], INT)
        args = [self.expr(a, env) for a in n.args]
        if f in ("np.minimum", "np.maximum", "min", "max") and len(args) == 2 and args[0][1] == args[1][1] == INT:
            return (f"({'min' if 'min' in f else 'max'} {args[0][0]} {args[1][0]})", INT)
        if f in ("np.abs", "abs") and len(args) == 1 and args[0][1] == INT:
            return (f"(iabs {args[0][0]})", INT)
        if f == "np.sign" and len(args) == 1 and args[0][1] == INT:
            return (f"(sgn {args[0][0]})", INT)
        if f == "np.where" and len(args) == 3 and args[0][1] == BOOL and args[1][1] == args[2][1]:
            return (f"(if {args[0][0]} then {args[1][0]} else {args[2][0]})", args[1][1])
        if f in ("np.asanyarray", "np.asarray", "int", "np.atleast_1d") and len(args) == 1 and args[0][1] == INT:
            return args[0]
        if f == "len" and len(n.args) == 1 and _safe_path(n.args[0]) in self.spec.get("lens", {}):
            return (self.spec["lens"][_safe_path(n.args[0])], INT)
        if f == "np.ones_like" and len(args) == 1:
            return ("(1 : Int)", INT)
        if f == "np.min" and len(args) == 1 and _safe_path(n.args[0]) in self.rowvars:
            return args[0]   # row-projection convention, see module docstring
        self.err(n, f"call of {f}")

    def call_args(self, n, c, env):
        """arguments of a call to another kernel: `c['args']` lists, per Lean parameter, either
        ('row', leanexpr) | ('arg', i) | ('slice', i, field) for a `slice(a, b, c)` literal argument."""
        out = []
        for a in c["args"]:
            if a[0] == "row":
                out.append(self.rowvars[a[1]] if a[1] in self.rowvars else a[1])
            elif a[0] == "arg":
                out.append(self.expr(n.args[a[1]], env)[0])
            elif a[0] == "slice":
                arg = n.args[a[1]]
                if isinstance(arg, ast.Call) and _safe_path(arg.func) == "slice" and len(arg.args) == 3:
                    e, t = self.expr(arg.args[a[2]], env)
                else:
                    fld = ["start", "stop", "step"][a[2]]
                    e, t = self.expr(ast.Attribute(value=arg, attr=fld, ctx=ast.Load(), lineno=arg.lineno), env)
                want = a[3] if len(a) > 3 else None
                if want == OPT and t == INT:
                    e = f"(some {e})"
                elif want == INT and t == OPT:
                    self.err(n, "Option passed where Int expected")
                out.append(e)
        return out

    def is_none_test(self, test):
        return (isinstance(test, ast.Compare) and len(test.ops) == 1 and isinstance(test.ops[0], (ast.Is, ast.IsNot))
                and isinstance(test.comparators[0], ast.Constant) and test.comparators[0].value is None)

    def none_test(self, test, env):
        if isinstance(test, ast.Compare) and len(test.ops) == 1 and isinstance(test.ops[0], (ast.Is, ast.IsNot)) \
                and isinstance(test.comparators[0], ast.Constant) and test.comparators[0].value is None:
            e, t = self.expr(test.left, env)
            if t != OPT:
                self.err(test, f"`is None` test on a value of type {t}")
            return e, isinstance(test.ops[0], ast.Is)
        return None

    # ------------------------------------------------------------------ statements
    def terminates(self, body):
        """does this block always end in return / raise?"""
        if not body:
            return False
        last = body[-1]
        if isinstance(last, (ast.Return, ast.Raise)):
            return True
        if isinstance(last, ast.If):
            return self.terminates(last.body) and self.terminates(last.orelse)
        return False

    def wrap_ret(self, e):
        return f"(some {e})" if self.can_raise else e

    def block(self, stmts, env, ind):
        """translate a statement list that ends in return/raise into a Lean term"""
        pad = "  " * ind
        if not stmts:
            raise Unsupported(f"{self.file}: block falls off its end without return")
        st, rest = stmts[0], stmts[1:]
        if isinstance(st, ast.Expr) and isinstance(st.value, ast.Constant):
            return self.block(rest, env, ind)          # docstring
        if isinstance(st, ast.Pass):
            return self.block(rest, env, ind)
        if isinstance(st, ast.Return):
            e, t = self.expr(st.value, env)
            if self.ret_type is None:
                self.ret_type = t
            elif self.ret_type != t:
                self.err(st, f"return types differ: {self.ret_type} vs {t}")
            return pad + self.wrap_ret(e)
        if isinstance(st, ast.Raise):
            if not self.can_raise:
                self.err(st, "raise in a kernel not declared as refusing")
            return pad + "none"
        if isinstance(st, ast.Assert):
            cond = self.as_bool(st.test, env)
            self.add_pre(cond)
            return self.block(rest, env, ind)
        if isinstance(st, ast.Assign) and len(st.targets) == 1:
            tgt = st.targets[0]
            if isinstance(tgt, ast.Tuple) and isinstance(st.value, ast.Call):
                e, ty = self.expr(st.value, env)
                tys = [t.strip() for t in ty.split("×")]
                if len(tys) != len(tgt.elts):
                    self.err(st, "tuple unpacking arity")
                tmp = self.fresh("tup")
                lines = [f"{pad}let {tmp} : {ty} := {e}"]
                env = dict(env)
                for i, (t, tyi) in enumerate(zip(tgt.elts, tys)):
                    proj = tmp + "".join(".2" for _ in range(i)) + (".1" if i < len(tys) - 1 else "")
                    ln = self.fresh(_path(t))
                    lines.append(f"{pad}let {ln} : {tyi} := {proj}")
                    env[_path(t)] = (ln, tyi)
                self.prefix = self.prefix + lines
                return "\n".join(lines) + "\n" + self.block(rest, env, ind)
            if isinstance(tgt, ast.Tuple):
                if not isinstance(st.value, ast.Tuple) or len(st.value.elts) != len(tgt.elts):
                    self.err(st, "tuple unpacking of a non-literal")
                vals = [self.expr(v, env) for v in st.value.elts]
                env = dict(env)
                lines = []
                for t, (e, ty) in zip(tgt.elts, vals):
                    ln = self.fresh(_path(t))
                    lines.append(f"{pad}let {ln} : {ty} := {e}")
                    env[_path(t)] = (ln, ty)
                self.prefix = self.prefix + lines
                return "\n".join(lines) + "\n" + self.block(rest, env, ind)
            e, ty = self.expr(st.value, env)
            ln = self.fresh(_path(tgt))
            env = dict(env)
            env[_path(tgt)] = (ln, ty)
            self.prefix = self.prefix + [f"let {ln} : {ty} := {e}"]
            return f"{pad}let {ln} : {ty} := {e}\n" + self.block(rest, env, ind)
        if isinstance(st, ast.AugAssign):
            cur, tc = self.expr(st.target, env)
            e, te = self.expr(st.value, env)
            if tc == te == BOOL and isinstance(st.op, ast.BitOr):
                new = f"({cur} || {e})"
            elif tc == te == BOOL and isinstance(st.op, ast.BitAnd):
                new = f"({cur} && {e})"
            elif tc == te == INT and isinstance(st.op, (ast.Add, ast.Sub, ast.Mult)):
                new = f"({cur} {'+' if isinstance(st.op, ast.Add) else '-' if isinstance(st.op, ast.Sub) else '*'} {e})"
            else:
                self.err(st, "augmented assignment")
            ln = self.fresh(_path(st.target))
            env = dict(env)
            env[_path(st.target)] = (ln, tc)
            self.prefix = self.prefix + [f"let {ln} : {tc} := {new}"]
            return f"{pad}let {ln} : {tc} := {new}\n" + self.block(rest, env, ind)
        if isinstance(st, ast.If):
            return self.if_stmt(st, rest, env, ind)
        self.err(st, f"statement {type(st).__name__}")

    def if_stmt(self, st, rest, env, ind):
        pad = "  " * ind
        src = ast.unparse(st.test)
        if src in self.static:                       # static branch resolution (e.g. isinstance tests)
            taken = st.body if self.static[src] else st.orelse
            return self.block(list(taken) + list(rest), env, ind)
        body_term, else_term = self.terminates(st.body), self.terminates(st.orelse)
        nt = self.none_test(st.test, env)
        if body_term or else_term:
            # control flow: the non-terminating arm continues with `rest`
            b = list(st.body) + ([] if body_term else list(rest))
            o = list(st.orelse) + ([] if else_term else list(rest))
            if nt is not None:
                optexpr, is_none = nt
                var = _safe_path(st.test.left)
                inner = self.fresh((var or "v") + "_v")
                env_some = dict(env)
                if var is not None:
                    env_some[var] = (inner, INT)
                none_b, some_b = (b, o) if is_none else (o, b)
                return (f"{pad}match {optexpr} with\n{pad}| none =>\n" + self.block(none_b, env, ind + 2)
                        + f"\n{pad}| some {inner} =>\n" + self.block(some_b, env_some, ind + 2))
            c = self.as_bool(st.test, env)
            saved_path, saved_prefix = self.path, self.prefix
            self.path = saved_path + [c]
            tb = self.block(b, env, ind + 1)
            self.path, self.prefix = saved_path + [f"(!{c})"], saved_prefix
            te = self.block(o, env, ind + 1)
            self.path, self.prefix = saved_path, saved_prefix
            return f"{pad}if {c} then\n" + tb + f"\n{pad}else\n" + te
        # both arms only assign: merge the assigned variables
        env2, lines = self.merge_if(st, env, ind)
        self.prefix = self.prefix + lines
        return "".join(l + "\n" for l in lines) + self.block(rest, env2, ind)

    def branch_assigns(self, body, env):
        """run an assign-only branch; returns {pyname: (inlined lean expr, type)} for names it (re)binds"""
        out_env = dict(env)
        local = {}     # lean let name -> expr (to inline)
        for st in body:
            if isinstance(st, ast.Pass) or (isinstance(st, ast.Expr) and isinstance(st.value, ast.Constant)):
                continue
            if isinstance(st, ast.Assign) and len(st.targets) == 1 and isinstance(st.targets[0], ast.Tuple) \
                    and isinstance(st.value, ast.Tuple) and len(st.value.elts) == len(st.targets[0].elts):
                vals = [self.expr(v, out_env) for v in st.value.elts]      # simultaneous assignment
                for t, (e, ty) in zip(st.targets[0].elts, vals):
                    out_env[_path(t)] = (e, ty)
            elif isinstance(st, ast.Assign) and len(st.targets) == 1 and not isinstance(st.targets[0], ast.Tuple):
                e, ty = self.expr(st.value, out_env)
                out_env[_path(st.targets[0])] = (e, ty)
            elif isinstance(st, ast.AugAssign):
                cur, tc = self.expr(st.target, out_env)
                e, te = self.expr(st.value, out_env)
                if tc == te == BOOL and isinstance(st.op, ast.BitOr):
                    new = f"({cur} || {e})"
                elif tc == te == INT and isinstance(st.op, (ast.Add, ast.Sub)):
                    new = f"({cur} {'+' if isinstance(st.op, ast.Add) else '-'} {e})"
                else:
                    self.err(st, "augmented assignment")
                out_env[_path(st.target)] = (new, tc)
            elif isinstance(st, ast.If):
                out_env, lines = self.merge_if(st, out_env, 0, inline=True)
            else:
                self.err(st, f"statement {type(st).__name__} inside a value-merging if")
        return {k: v for k, v in out_env.items() if env.get(k) != v}

    def merge_if(self, st, env, ind, inline=False):
        pad = "  " * ind
        nt = self.none_test(st.test, env)
        lines = []
        env2 = dict(env)
        if nt is not None:
            optexpr, is_none = nt
            var = _safe_path(st.test.left)
            inner = self.fresh((var or "v") + "_v")
            env_some = dict(env)
            if var is not None:
                env_some[var] = (inner, INT)
            none_body, some_body = (st.body, st.orelse) if is_none else (st.orelse, st.body)
            a = self.branch_assigns(none_body, env)
            b = self.branch_assigns(some_body, env_some)
            names = sorted(set(a) | set(b))
            if var is not None and var not in names:
                pass
            for py in names:
                ea = a.get(py, env.get(py))
                eb = b.get(py, (inner, INT) if py == var else env.get(py))
                if py == var and py not in b:
                    eb = (inner, INT)
                if ea is None or eb is None:
                    self.err(st, f"variable {py} is defined in one branch only")
                if ea[1] == OPT and py == var:
                    self.err(st, f"{py} stays None in the None branch")
                if ea[1] != eb[1]:
                    self.err(st, f"variable {py} has type {ea[1]} in one branch and {eb[1]} in the other")
                e = f"(match {optexpr} with | none => {ea[0]} | some {inner} => {eb[0]})"
                if inline:
                    env2[py] = (e, ea[1])
                else:
                    ln = self.fresh(py)
                    lines.append(f"{pad}let {ln} : {ea[1]} := {e}")
                    env2[py] = (ln, ea[1])
            return env2, lines
        c = self.as_bool(st.test, env)
        a = self.branch_assigns(st.body, env)
        b = self.branch_assigns(st.orelse, env)
        for py in sorted(set(a) | set(b)):
            ea = a.get(py, env.get(py))
            eb = b.get(py, env.get(py))
            if ea is None or eb is None:
                self.err(st, f"variable {py} is defined in one branch only")
            if ea[1] != eb[1]:
                self.err(st, f"variable {py} has type {ea[1]} in one branch and {eb[1]} in the other")
            e = f"(if {c} then {ea[0]} else {eb[0]})"
            if inline:
                env2[py] = (e, ea[1])
            else:
                ln = self.fresh(py)
                lines.append(f"{pad}let {ln} : {ea[1]} := {e}")
                env2[py] = (ln, ea[1])
        return env2, lines


def _safe_path(node):
    try:
        return _path(node)
    except Unsupported:
        return None


def find_function(tree, qual):
    parts = qual.split(".")
    body = tree.body
    node = None
    for i, p in enumerate(parts):
        node = None
        for n in body:
            if isinstance(n, (ast.ClassDef, ast.FunctionDef)) and n.name == p:
                node = n
        if node is None:
            return None
        body = node.body
    return node if isinstance(node, ast.FunctionDef) else None



# ---------------------------------------------------------------------------------------------------
# Inlining of helper methods (extract-method refactorings): a call `self.helper(args)` of a method of the
# same class that is not itself a kernel is replaced, at the Python AST level, by the helper's body, so that
# the translated kernel keeps denoting the same arithmetic whether or not pieces of it live in helpers.
#   x = self.helper(a, b)        -> helper body with `return e` turned into `x = e` (return-trees only)
#   return self.helper(a, b)     -> helper body (its returns become the kernel's returns)
# Parameters are substituted by the argument when the argument is a plain name / attribute path and the
# helper never assigns to the parameter; otherwise they are bound to a fresh local first.  Locals of the
# helper are renamed apart.

class _Rename(ast.NodeTransformer):
    def __init__(self, names, subst):
        self.names, self.subst = names, subst

    def visit_Name(self, n):
        if n.id in self.subst:
            return copy.deepcopy(self.subst[n.id])
        if n.id in self.names:
            return ast.copy_location(ast.Name(id=self.names[n.id], ctx=n.ctx), n)
        return n


def _assigned_names(stmts):
    out = set()
    for st in stmts:
        for n in ast.walk(st):
            if isinstance(n, ast.Name) and isinstance(n.ctx, ast.Store):
                out.add(n.id)
    return out


def _terminates(body):
    if not body:
        return False
    last = body[-1]
    if isinstance(last, (ast.Return, ast.Raise)):
        return True
    if isinstance(last, ast.If):
        return _terminates(last.body) and _terminates(last.orelse)
    return False


def _assignify(stmts, target):
    """turn a return-tree into assignments to `target`; None if the block is not a return-tree"""
    out = []
    for i, st in enumerate(stmts):
        if isinstance(st, ast.Return):
            if st.value is None:
                return None
            out.append(ast.Assign(targets=[ast.Name(id=target, ctx=ast.Store())], value=st.value, lineno=st.lineno))
            return out
        if isinstance(st, ast.Raise):
            out.append(st)
            return out
        if isinstance(st, ast.If) and (_terminates(st.body) or _terminates(st.orelse)):
            rest = stmts[i + 1:]
            b = _assignify(st.body + ([] if _terminates(st.body) else rest), target)
            o = _assignify(st.orelse + ([] if _terminates(st.orelse) else rest), target)
            if b is None or o is None:
                return None
            out.append(ast.If(test=st.test, body=b, orelse=o, lineno=st.lineno))
            return out
        out.append(st)
    return None     # fell off the end without a return


def _helper_call(node, cls, spec):
    """(method FunctionDef, call node) when `node` is `self.<method>(...)` of a non-kernel method of `cls`"""
    if isinstance(node, ast.Call) and not node.keywords and isinstance(node.func, ast.Attribute) \
            and isinstance(node.func.value, ast.Name) and node.func.value.id == "self":
        path = "self." + node.func.attr
        if path in spec.get("calls", {}) or path in spec.get("identity_calls", []) or path in spec.get("ctor", ["self.__class__"]):
            return None
        for m in cls.body:
            if isinstance(m, ast.FunctionDef) and m.name == node.func.attr:
                if any(isinstance(d, ast.Name) and d.id in ("property", "staticmethod", "classmethod") for d in m.decorator_list):
                    return None
                if m.args.vararg or m.args.kwarg or m.args.kwonlyargs or m.args.defaults:
                    return None
                if len(m.args.args) != len(node.args) + 1:
                    return None
                return m
    return None


def inline_helpers(cls, body, spec, counter, depth=0):
    if depth > 6:
        return body
    out = []
    changed = False
    for st in body:
        call, mode, target = None, None, None
        if isinstance(st, ast.Return) and st.value is not None:
            call, mode = st.value, "return"
        elif isinstance(st, ast.Assign) and len(st.targets) == 1 and isinstance(st.targets[0], ast.Name):
            call, mode, target = st.value, "assign", st.targets[0].id
        m = _helper_call(call, cls, spec) if call is not None else None
        if m is None:
            if isinstance(st, ast.If):
                b = inline_helpers(cls, st.body, spec, counter, depth)
                o = inline_helpers(cls, st.orelse, spec, counter, depth)
                st = ast.If(test=st.test, body=b, orelse=o, lineno=st.lineno)
            out.append(st)
            continue
        counter[0] += 1
        tag = f"h{counter[0]}_"
        hbody = [x for x in m.body if not (isinstance(x, ast.Expr) and isinstance(x.value, ast.Constant))]   # drop the docstring
        assigned = _assigned_names(hbody)
        names, subst, pre = {}, {}, []
        for prm, arg in zip(m.args.args[1:], call.args):
            simple = _safe_path(arg) is not None and not isinstance(arg, ast.Call)
            if simple and prm.arg not in assigned:
                subst[prm.arg] = arg
            else:
                names[prm.arg] = tag + prm.arg
                pre.append(ast.Assign(targets=[ast.Name(id=tag + prm.arg, ctx=ast.Store())], value=arg, lineno=st.lineno))
        for nm in assigned:
            if nm not in names:
                names[nm] = tag + nm
        ren = _Rename(names, subst)
        hbody = [ren.visit(copy.deepcopy(x)) for x in hbody]
        if mode == "assign":
            hbody = _assignify(hbody, target)
            if hbody is None:
                out.append(st)
                continue
        for x in pre + hbody:
            ast.fix_missing_locations(x)
        out.extend(inline_helpers(cls, pre + hbody, spec, counter, depth + 1))
        changed = True
    return out


def find_class(tree, qual):
    parts = qual.split(".")
    if len(parts) < 2:
        return None
    for n in tree.body:
        if isinstance(n, ast.ClassDef) and n.name == parts[0]:
            return n
    return None


def translate_kernel(repo, spec):
    path = os.path.join(repo, spec["file"])
    src = open(path).read()
    tree = ast.parse(src)
    fn = find_function(tree, spec["qual"])
    if fn is None:
        raise Unsupported(f"{spec['file']}: function {spec['qual']} not found")
    tr = Tr(spec, spec["file"])
    tr.can_raise = spec.get("can_raise", False)
    env = {}
    params = []
    for lean_name, ty in spec.get("rowparams", []):
        params.append(f"({lean_name} : {ty})")
    for py, (lean_name, ty) in spec.get("params", {}).items():
        env[py] = (lean_name, ty)
        params.append(f"({lean_name} : {ty})")
    body = list(fn.body)
    cls = find_class(tree, spec["qual"])
    if cls is not None:
        body = inline_helpers(cls, body, spec, [0])
    if spec.get("stop_before") == "$first_returning_if":
        # cut at the first `if <test>: return ...` (no else) of the body; "$test" in `returns` stands for its test, however it is spelled
        cut = None
        for i, stn in enumerate(body):
            if isinstance(stn, ast.If) and not stn.orelse and stn.body and isinstance(stn.body[0], ast.Return):
                cut = i
                break
        if cut is None:
            raise Unsupported(f"{spec['file']}: no `if ...: return ...` statement found in {spec['qual']}")
        test = ast.unparse(body[cut].test)
        ret = ast.parse("return (" + ", ".join(r.replace("$test", "(" + test + ")") for r in spec["returns"]) + ")").body[0]
        body = body[:cut] + [ret]
    elif "stop_before" in spec:
        cut = None
        for i, stn in enumerate(body):
            if ast.unparse(stn).startswith(spec["stop_before"]):
                cut = i
                break
        if cut is None:
            raise Unsupported(f"{spec['file']}: statement starting with {spec['stop_before']!r} not found in {spec['qual']}")
        ret = ast.parse("return (" + ", ".join(spec["returns"]) + ")").body[0]
        body = body[:cut] + [ret]
    if "prologue" in spec:   # python statements executed before the body (e.g. aliasing an argument)
        body = ast.parse(textwrap.dedent(spec["prologue"])).body + body
    term = tr.block(body, env, 1)
    rt = tr.ret_type or "Int"
    if tr.can_raise:
        rt = f"Option ({rt})"
    name = spec["name"]
    text = f"/-- generated from `{spec['file']}` `{spec['qual']}`" + (f" ({spec['note']})" if spec.get("note") else "") + f" -/\ndef {name} {' '.join(params)} : {rt} :=\n{term}\n"
    pre = " && ".join(tr.pre) if tr.pre else "true"
    text += f"\n/-- the `assert` statements of `{spec['qual']}` -/\ndef {name}_pre {' '.join(params)} : Bool :=\n  {pre}\n"
    return text


HEADER = """import NpsVerif.Gen.Prelude{imp}
/-! GENERATED by tools/translate.py from /repo's current source on every run. Do not edit. -/
set_option linter.unusedVariables false
namespace Gen.{ns}
open Gen
"""


def generate_text(repo, ns="Cur"):
    import kernels
    parts, errors = [], []
    for spec in kernels.KERNELS:
        try:
            parts.append(translate_kernel(repo, spec))
        except Unsupported as e:
            errors.append({"kernel": spec["name"], "detail": str(e)})
            # keep the library compiling: fall back to the reference definition for this kernel, so that
            # other kernels/properties are unaffected; the broken obligation is reported by the check
            parts.append(kernels.fallback(spec))
        except SyntaxError as e:
            errors.append({"kernel": spec["name"], "detail": f"{spec['file']}: syntax error {e}"})
            parts.append(kernels.fallback(spec))
    return HEADER.format(ns=ns, imp=('\nimport NpsVerif.Gen.Ref' if ns == 'Cur' else '')) + "\n".join(parts) + f"\nend Gen.{ns}\n", errors


CHECKED = ("view2_ends", "calc_lengths", "pos_col_slice", "col_slice_slice", "col_slice_int")

HEADER_C = """import NpsVerif.Gen.PreludeW
import NpsVerif.Gen.Ref
/-! GENERATED by tools/translate.py from /repo's current source on every run. Do not edit.
The column-slice kernels of `Gen.Cur`, same text, over wrapping signed 32-bit integers (`Gen.W32`, see PreludeW). -/
set_option linter.unusedVariables false
namespace Gen.CurW
open Gen
"""


def _fallback_w(name):
    """W32 kernel used when the translator rejects the current source of a kernel (the Int kernel is then the reference
    definition, see kernels.fallback): the reference kernel on the stored values, so that the library still compiles; the
    translator error itself is reported as a broken obligation by the check"""
    import kernels
    spec = next(k for k in kernels.KERNELS if k["name"] == name)
    params = list(spec.get("rowparams", [])) + [v for v in spec.get("params", {}).values()]
    sig = " ".join(f"({n} : {'W32' if t == INT else 'Option W32'})" for n, t in params)
    args = " ".join(f"{n}.v" if t == INT else f"({n}.map (·.v))" for n, t in params)
    call = f"(Gen.Ref.{name} {args})"
    ty = spec["type"]
    if ty == "Int":
        body, rt = f"⟨{call}⟩", "W32"
    elif ty == "Int × Int × Int":
        body, rt = f"let t := {call}; (⟨t.1⟩, ⟨t.2.1⟩, ⟨t.2.2⟩)", "W32 × W32 × W32"
    elif ty == "Option (Int × Int)":
        body, rt = f"{call}.map fun p => (⟨p.1⟩, ⟨p.2⟩)", "Option (W32 × W32)"
    else:
        raise Unsupported(f"no W32 fallback for kernel type {ty}")
    return f"/-- TRANSLATOR ERROR for this kernel: the reference kernel on the stored values -/\ndef {name} {sig} : {rt} :=\n  {body}\n"


def checked_text(text):
    """the kernels CHECKED of a generated kernel file, with Int replaced by W32 (wrapping int32 arithmetic)"""
    parts = []
    for name in CHECKED:
        m = re.search(rf"^/-- [^\n]*\ndef {re.escape(name)} .*?(?=^/--|^def |^end )", text, flags=re.S | re.M)
        if m is None:
            continue
        d = m.group(0)
        if "TRANSLATOR ERROR" in d:
            parts.append(_fallback_w(name))
            continue
        d = d.replace("Int.fdiv", "W32.fdiv").replace("Int.fmod", "W32.fmod")
        d = re.sub(r"(?<![A-Za-z0-9_.])Int(?![A-Za-z0-9_.])", "W32", d)
        d = re.sub(r"(?<![A-Za-z0-9_.])iabs(?![A-Za-z0-9_])", "W32.iabs", d)
        d = re.sub(r"(?<![A-Za-z0-9_.])sgn(?![A-Za-z0-9_])", "W32.sgn", d)
        d = d.replace("Gen.Ref.", "Gen.RefW.")
        parts.append(d.rstrip() + "\n")
    return HEADER_C + "\n".join(parts) + "\nend Gen.CurW\n"


def _write_if_changed(path, text):
    old = open(path).read() if os.path.exists(path) else None
    if old != text:
        with open(path, "w") as f:
            f.write(text)


def regenerate(repo, lean_dir):
    text, errors = generate_text(repo, "Cur")
    _write_if_changed(os.path.join(lean_dir, "NpsVerif", "Gen", "Cur.lean"), text)
    _write_if_changed(os.path.join(lean_dir, "NpsVerif", "Gen", "CurW.lean"), checked_text(text))
    # which kernels differ textually from the committed reference?
    ref_path = os.path.join(lean_dir, "NpsVerif", "Gen", "Ref.lean")
    changed = []
    if os.path.exists(ref_path):
        ref = open(ref_path).read()
        import kernels
        for spec in kernels.KERNELS:
            a = _def_text(text, spec["name"])
            b = _def_text(ref, spec["name"])
            if a != b:
                changed.append(spec["name"])
    return {"errors": errors, "changed": changed}


def _def_text(text, name):
    m = re.search(rf"^def {re.escape(name)} .*?(?=^/--|^def |^end )", text, flags=re.S | re.M)
    return m.group(0).strip() if m else None


if __name__ == "__main__":
    import sys
    sys.path.insert(0, os.path.dirname(os.path.abspath(__file__)))
    repo = sys.argv[1] if len(sys.argv) > 1 else "/repo"
    ns = sys.argv[2] if len(sys.argv) > 2 else "Cur"
    text, errors = generate_text(repo, ns)
    print(text)
    if errors:
        print("ERRORS", errors, file=sys.stderr)
