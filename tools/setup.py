#!/venv/bin/python
"""MANIFEST.setup_cmd: build the framework offline from files on disk.
  1. kernel translator: /repo source -> lean/NpsVerif/Gen/Cur.lean
  2. lake build: the whole NpsVerif library (all theorems) and the driver executable
  3. validation of the N layer (model of numpy primitives) against numpy itself
"""
import os, sys, subprocess, time
sys.dont_write_bytecode = True
HERE = os.path.dirname(os.path.abspath(__file__))
sys.path.insert(0, HERE)
import engine, translate

def main():
    t0 = time.time()
    with engine.LeanLock():
        tr = translate.regenerate(engine.REPO, engine.LEAN_DIR)
        if tr["errors"]:
            print("translator errors (reported by the checks):", tr["errors"])
        rc, out = engine.lake(["build"], timeout=3600)
        print(out[-3000:])
        if rc != 0:
            # a kernel bridge may legitimately fail when /repo was edited; build everything else
            rc2, out2 = engine.lake(["build", "driver"], timeout=3600)
            print(out2[-2000:])
            if rc2 != 0:
                print("SETUP FAILED: driver does not build"); sys.exit(2)
    nv = os.path.join(HERE, "nlayer_validate.py")
    if os.path.exists(nv):
        rc = subprocess.call(["/venv/bin/python", nv])
        if rc != 0:
            print("SETUP FAILED: N-layer validation"); sys.exit(2)
    print(f"setup done in {time.time()-t0:.1f}s")

if __name__ == "__main__":
    main()
