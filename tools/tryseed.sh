#!/bin/sh
# evaluation helper: run checks against a seeded change (seeded/<name>/patch.diff) in a scratch copy of /repo (never /repo itself)
# usage: tools/tryseed.sh <seed name> <check id> [...]
NAME="$1"; shift
D=/root/scratch/tryseed_$NAME
rm -rf "$D"; mkdir -p "$D"
rsync -a --exclude .git --exclude docs --exclude docs_source /repo/ "$D/repo/"
(cd "$D/repo" && patch -p1 -s < /verif/seeded/$NAME/patch.diff) || exit 2
cd /verif
for c in "$@"; do
  NPS_REPO="$D/repo" VERIF_OUT_DIR="$D/out" ./check $c quick 2>&1 | grep -v "^KNOWN\|Warning\|warn\|histogram" | tail -2 | cut -c1-200
done
# leave the generated kernels in step with /repo
/venv/bin/python -c "import sys; sys.path.insert(0,'tools'); import translate; translate.regenerate('/repo','lean')" >/dev/null
rm -rf "$D"
