"""C12 — Counter totals equal the number of occurrences seen so far."""
import random
import numpy as np
import engine, gens, htgen
from engine import canon, guarded, refuse

ID = "C12"
LEVEL = "proof"
LEVEL_TEXT = ("Lean 4 theorems for every key set and modulus as in C11, every initial value (0, a scalar, per-key values) and every finite "
              "sequence of sample batches: after the batches the model counter holds, for each key, the initial value plus the number "
              "of occurrences of that key in all samples so far (a corollary of the dictionary refinement of C11 extended with the "
              "count operation: samples of empty buckets are dropped, hits become flat positions in the key buffer, a histogram is "
              "added, with the three state-dependent initialisations), non-keys are ignored wherever their hash falls, and the totals "
              "depend only on the multiset of samples (order- and split-invariant) and not on the modulus. The fast paths that are only "
              "valid for views without empty rows (gather-index builder and column broadcast by diff + cumsum) are proved equal to the "
              "general ones under that precondition. Tied to hashtable.py by correspondence incl. re-split / permuted batch lists.")
LEVEL_NOTE = ("Trusted: Lean kernel (+ standard axioms); kernel translator (K10); the model is written against the list-of-rows meaning of "
              "the RaggedArray operations Counter uses and tied by correspondence; numpy bincount; value dtypes are correspondence-only.")
TECHNIQUE = "Lean 4 refinement proof (induction over batches) to a dictionary of totals; correspondence incl. metamorphic re-splitting"
DESIGN_REF = "7"
LEAN_MODULES = ["NpsVerif.Props.C12"]
KERNELS = ("ht_hash", "ht_mod")
RULE = ("cases = key set x key dtype x modulus (as C11) x initial value (default 0 / 0 / non-zero scalar / float scalar / per-key array) x "
        "1..5 sample batches (empty, no key, only keys, heavy repetition, few hits with a repeated key on tables of up to 48 keys, non-keys colliding with a non-empty bucket / falling into an "
        "empty bucket / huge); each batch list is also run re-split and permuted on the implementation; distinct = distinct (keys, mod, "
        "init, batches); per-key initial values include the same non-integer value for every key; non-trivial = >= 2 keys and at least one sample that is a key")
EXHAUSTIVE = {"quick": False, "thorough": False}
CORRESPONDENCE_ONLY = ["value dtypes (value_dtype argument, float initial values)"]
ASSUMPTIONS = ["keys handed to the constructor are distinct"]


def _batch(rng, keys, absent):
    kind = rng.choice(["empty", "nokey", "keys", "rep", "fewrep", "mixed", "mixed"])
    if kind == "fewrep":       # a small batch (few hits relative to the table) in which a key repeats
        k = rng.choice(keys)
        out = [k] * rng.randint(2, 3) + ([rng.choice(absent) for _ in range(rng.randint(0, 3))] if absent else [])
        rng.shuffle(out)
        return out
    if kind == "empty":
        return []
    if kind == "nokey":
        return [rng.choice(absent) for _ in range(rng.randint(1, 5))] if absent else []
    if kind == "keys":
        return [rng.choice(keys) for _ in range(rng.randint(1, 8))]
    if kind == "rep":
        k = rng.choice(keys)
        return [k] * rng.randint(2, 12) + ([rng.choice(keys)] if rng.random() < 0.5 else [])
    out = [rng.choice(keys + absent) if absent else rng.choice(keys) for _ in range(rng.randint(1, 10))]
    return out


def cases(rng, tier):
    out = []
    for _ in range(1200 if tier == "quick" else 20000):
        dt = rng.choice(htgen.KEY_DTYPES)
        keys = htgen.key_set(rng, dt)
        mod = htgen.pick_mod(rng, len(keys))
        if mod is not None and mod > np.iinfo(dt).max:
            mod = None
        absent = [a for a in htgen.absent_keys(rng, keys, dt, mod)]
        # the ends of the key dtype (and 0) as NON-keys: values an implementation may use as a marker
        absent += [a for a in (int(np.iinfo(dt).min), int(np.iinfo(dt).max), 0, -1) if a not in keys and np.iinfo(dt).min <= a <= np.iinfo(dt).max and a not in absent]
        init = rng.choice(["default", "default", 0, 5, 1, -1, 0.5, "array", "array", "farray", "cfarray"])      # (1, -1, 0: values a truth test or a sign confuses)
        if init == "array":
            init = [rng.randint(0, 9) for _ in keys]
        elif init == "farray":       # per-key pseudo-counts that are not integers
            init = [rng.choice([0.5, 1.5, 2.25, 0.0, 7.75]) for _ in keys]
        elif init == "cfarray":      # ... the SAME non-integer pseudo-count for every key, given per key
            init = [rng.choice([0.5, 2.25, 7.75])] * len(keys)
        batches = [_batch(rng, keys, absent) for _ in range(rng.randint(1, 5))]
        out.append({"keys": keys, "kdtype": dt, "mod": mod, "init": init, "batches": batches, "pseed": rng.randint(0, 999),
                    "idt": rng.choice([None, None, "uint8", "uint16", "uint32", "uint64", "int32", "int16"])})
    # small moduli with a PRESCRIBED pattern of bucket sizes (1..3 keys per bucket, some buckets empty) and short batches that walk
    # through the buckets in every order: the (sample, offset-in-bucket) bookkeeping sees rows of unequal lengths
    for _ in range(200 if tier == "quick" else 3000):
        m = rng.randint(2, 6)
        sizes = [rng.choice([0, 1, 1, 2, 2, 3]) for _ in range(m)]
        if sum(sizes) == 0:
            sizes[0] = 2
        keys = [b + m * j for b, sz in enumerate(sizes) for j in range(sz)]
        rng.shuffle(keys)
        absent = [b + m * (3 + rng.randint(0, 2)) for b in range(m)]
        batches = []
        for _ in range(rng.randint(1, 4)):
            b = [rng.choice(keys) for _ in range(rng.randint(3, 7))] + ([rng.choice(absent)] if rng.random() < 0.4 else [])
            rng.shuffle(b)
            batches.append(b)
        out.append({"keys": keys, "kdtype": rng.choice(["int64", "int32", "uint8"]), "mod": m, "init": rng.choice(["default", 0, 3, 1, -1]), "batches": batches, "pseed": rng.randint(0, 999)})
    # NARROW key dtypes with MANY buckets (hashes close to the dtype's maximum: arithmetic on them in the key dtype wraps)
    for _ in range(150 if tier == "quick" else 2000):
        dt = rng.choice(["int8", "uint8", "int16", "uint16"])
        info = np.iinfo(dt)
        n = rng.randint(20, min(110, int(info.max) - 2))
        lo = 0 if dt.startswith("u") or rng.random() < 0.5 else int(info.min)
        keys = rng.sample(range(lo, min(int(info.max), lo + 4 * n) + 1), n)
        mod = rng.choice([None, None, int(info.max), int(info.max) // 2 + 1, min(int(info.max), 2 * n + 7), min(int(info.max), 20001)])
        if mod is None and 2 * n - 1 > info.max:
            mod = int(info.max)
        pool = [k for k in range(max(int(info.min), lo - 5), min(int(info.max), lo + 4 * n + 5) + 1) if k not in set(keys)]
        absent = rng.sample(pool, min(len(pool), 12)) + [a for a in (int(info.min), int(info.max), 0) if a not in keys]
        batches = [_batch(rng, keys, absent) for _ in range(rng.randint(1, 3))] + [list(keys) * rng.randint(1, 3)]
        out.append({"keys": keys, "kdtype": dt, "mod": mod, "init": rng.choice(["default", 0, 2, 1, -1]), "batches": batches, "pseed": rng.randint(0, 999)})
    # BIG batches (tens of thousands of samples in one call): long stretches without any key followed by keys, uneven repetition,
    # non-keys smaller and larger than the keys, non-keys in empty and in occupied buckets
    plan = [(70000, "nokey_then_keys"), (12000, "mixed"), (rng.choice([65536, 131072, 10001]), rng.choice(["nokey_then_keys", "mixed"]))]
    if tier != "quick":
        plan = plan * 4
    for n, kind in plan:
        dt = rng.choice(["int64", "int32", "uint64"])
        keys = htgen.key_set(rng, dt)
        while len(keys) < 4:
            keys = htgen.key_set(rng, dt)
        mod = rng.choice([None, 7, 2 * len(keys) - 1, 1000])
        absent = htgen.absent_keys(rng, keys, dt, mod) or [max(keys) + 1]
        absent = [a for a in absent if a not in keys] + [min(keys) - 1 if min(keys) > np.iinfo(dt).min else max(keys) + 2]
        absent = [a for a in absent if a not in keys and np.iinfo(dt).min <= a <= np.iinfo(dt).max]
        rep = absent[:5] if kind == "nokey_then_keys" else (absent[:3] + [keys[0]] * 3 + [keys[1]] + keys[2:4] * 2)
        tail = [rng.choice(keys) for _ in range(rng.randint(50, 400))] + [rng.choice(absent) for _ in range(20)]
        rng.shuffle(tail)
        out.append({"keys": keys, "kdtype": dt, "mod": mod, "init": rng.choice(["default", 5, "array"]) if False else "default",
                    "batches": [{"rep": rep, "n": n, "tail": tail}, [rng.choice(keys) for _ in range(5)]], "pseed": rng.randint(0, 999)})
    return out


def _isfloat(p):
    return isinstance(p["init"], float) or (isinstance(p["init"], list) and any(isinstance(v, float) for v in p["init"]))


def key(p):
    return engine.stable_hash([p["keys"], p["mod"], p["init"], p["batches"]])


def _flat(b):
    return (b["rep"] + b["tail"]) if isinstance(b, dict) else b


def nontrivial(p):
    return len(p["keys"]) >= 2 and any(s in p["keys"] for b in p["batches"] for s in _flat(b))


def distribution(ps):
    return {"n_keys": gens.hist(len(p["keys"]) for p in ps), "mods": gens.hist(p["mod"] for p in ps),
            "init": gens.hist("array" if isinstance(p["init"], list) else p["init"] for p in ps),
            "n_batches": gens.hist(len(p["batches"]) for p in ps),
            "empty_batches": sum(1 for p in ps for b in p["batches"] if not b), "big_batches(>10000 samples)": sum(1 for p in ps for b in p["batches"] if isinstance(b, dict)),
            "batches_without_key": sum(1 for p in ps for b in p["batches"] if b and not any(s in p["keys"] for s in _flat(b))),
            "non_key_samples": sum(1 for p in ps for b in p["batches"] for s in _flat(b) if s not in p["keys"])}


def _batches(p):
    """batches as plain lists; a big batch is stored compactly as {"rep": [...], "n": N, "tail": [...]} = N samples cycling through
    `rep`, followed by `tail`"""
    out = []
    for b in p["batches"]:
        if isinstance(b, dict):
            rep = b["rep"]
            out.append([rep[i % len(rep)] for i in range(b["n"])] + list(b["tail"]))
        else:
            out.append(b)
    return out


def _idt(p):
    """element type of a per-key initial array: numpy's default, or (idt) a narrower / unsigned integer type"""
    if p.get("idt") and all(isinstance(v, int) and 0 <= v < 100 for v in p["init"]):
        return p["idt"]
    return None


def _mk(p, shared=None):
    from npstructures import Counter
    kd = np.dtype(p["kdtype"])
    keys = np.array(p["keys"], dtype=kd) if shared is None else shared[0]
    kw = {} if p["mod"] is None else {"mod": p["mod"]}
    if p["init"] == "default":
        return Counter(keys, **kw), kd
    if isinstance(p["init"], list):
        return Counter(keys, np.array(p["init"], dtype=_idt(p)) if shared is None else shared[1], **kw), kd
    if isinstance(p["init"], float):
        return Counter(keys, p["init"], value_dtype=float, **kw), kd
    return Counter(keys, p["init"], **kw), kd


def _totals(c, p, kd):
    return [float(x) if _isfloat(p) else int(x) for x in np.atleast_1d(c[np.array(p["keys"], dtype=kd)])]


def run_impl(p):
    def g():
        kd0 = np.dtype(p["kdtype"])
        shared = (np.array(p["keys"], dtype=kd0), np.array(p["init"], dtype=_idt(p)) if isinstance(p["init"], list) else None)
        keep = (shared[0].copy(), None if shared[1] is None else shared[1].copy())
        c, kd = _mk(p, shared)
        twin, _ = _mk(p, shared)           # a second counter built from the SAME key / initial-value arrays, never counted into
        trace = []
        batches = _batches(p)
        c4, _ = _mk(p)                     # counts the very same sample ARRAYS once more (they belong to the caller: count only reads them)
        for b in batches:
            arr = np.array(b, dtype=kd) if b else np.array([], dtype=kd)
            before = arr.copy()
            c.count(arr)
            trace.append(_totals(c, p, kd))
            if not np.array_equal(arr, before):
                raise engine.Inconsistent("count wrote into the caller's sample array")
            c4.count(arr)
        if [float(x) for x in _totals(c4, p, kd)] != [float(x) for x in _totals(c, p, kd)]:
            raise engine.Inconsistent("counting the same sample arrays into a second counter gives other totals")
        # metamorphic: same multiset of samples, permuted and re-split
        rnd = random.Random(p["pseed"])
        alls = [s for b in batches for s in b]
        rnd.shuffle(alls)
        c2, _ = _mk(p)
        i = 0
        while i < len(alls):
            j = i + rnd.randint(1, max(4, len(alls) // 40))
            c2.count(np.array(alls[i:j], dtype=kd)); i = j
        c3, _ = _mk(p)
        c3.count(list(alls))
        if not np.array_equal(shared[0], keep[0]) or (shared[1] is not None and not np.array_equal(shared[1], keep[1])):
            raise engine.Inconsistent("the counter wrote into the arrays it was constructed from")
        ini = [0 if p["init"] == "default" else (p["init"][i] if isinstance(p["init"], list) else p["init"]) for i in range(len(p["keys"]))]
        if [float(x) for x in _totals(twin, p, kd)] != [float(x) for x in ini]:
            raise engine.Inconsistent("a counter built from the same arrays changed along with this one")
        return {"k": "obs", "trace": canon(trace), "resplit": canon(_totals(c2, p, kd)), "onecall": canon(_totals(c3, p, kd)),
                "items": canon(htgen.sort_pairs((k, float(v) if _isfloat(p) else int(v)) for k, v in c.items()))}
    return guarded(g)


def oracle(p):
    init = p["init"]
    d = {k: (0 if init == "default" else (init[i] if isinstance(init, list) else init)) for i, k in enumerate(p["keys"])}
    trace = []
    for b in _batches(p):
        for s in b:
            if s in d:
                d[s] += 1
        trace.append([d[k] for k in p["keys"]])
    final = [d[k] for k in p["keys"]]
    return {"k": "obs", "trace": canon(trace), "resplit": canon(final), "onecall": canon(final), "items": canon(htgen.sort_pairs(d.items()))}


def lean_request(p):
    if _isfloat(p) or any(isinstance(b, dict) for b in p["batches"]):
        return None          # (big batches: implementation vs reference tally only)
    vals = 0 if p["init"] == "default" else p["init"]
    ops = []
    for b in p["batches"]:
        ops.append({"t": "count", "s": b})
        ops.append({"t": "getvec", "ks": p["keys"]})
    ops.append({"t": "items"})
    return {"op": "HT.run", "keys": p["keys"], "vals": vals, "mod": p["mod"], "ops": ops}


def decode_lean(p, resp):
    def conv(j):
        if isinstance(j, dict) and j.get("refuse"):
            return refuse()
        trace = [j[2 * i + 1] for i in range(len(p["batches"]))]
        return {"k": "obs", "trace": canon(trace), "items": canon([[int(a), int(b)] for a, b in j[-1]])}
    return conv(resp["L"]), conv(resp["S"])


def same(a, b):
    if isinstance(a, dict) and isinstance(b, dict) and a.get("k") == "obs" and b.get("k") == "obs":
        ks = (set(a) & set(b)) - {"k"}
        return bool(ks) and all(engine.same(a[k], b[k]) for k in ks)
    return engine.same(a, b)


def matches_finding(f, p, impl, expect):
    return False
