"""C13 — bit-packing is lossless and position-addressable."""
import random
import numpy as np
import engine, gens
from engine import canon, guarded, refuse

ID = "C13"
LEVEL = "proof"
LEVEL_TEXT = ("Lean 4 theorems for every bit stride b dividing 64, every length and every list of values < 2^b: the model of "
              "pack (strided OR of shifted slices on 64-bit registers with wrap-around shifts) stores the digits of the single "
              "number stream = sum a[i]*2^(b*i); unpack(pack a) = a; packed[i] = a[i]; packed[list] unpacks to the listed elements; "
              "sliding_window(w)[i] = (stream >> b*i) mod 2^(w*b) for every w with w*b <= 64, including windows that straddle a "
              "register boundary. The model is tied to bitarray.py by a correspondence check over all b, lengths 0..3*(64/b)+3, "
              "all window sizes, every integer input dtype.")
LEVEL_NOTE = ("Trusted: Lean kernel (+ standard axioms), the hand-written model of bitarray.py (tied by differential correspondence; the "
              "addressing arithmetic of __getitem__ is kernel K11, regenerated from the source on every run and bridged), "
              "numpy uint64 shift semantics (shift >= 64 gives 0; validated). Windows wider than the array (w > len) and integer "
              "positions outside [0, len) are outside the property's statement and not judged.")
TECHNIQUE = "Lean 4 proof (Nat bit arithmetic) of model = digits-of-one-number spec; kernel K11 from source; model/implementation correspondence"
DESIGN_REF = "7"
LEAN_MODULES = ["NpsVerif.Props.C13"]
KERNELS = ("bit_addr",)
RULE = ("cases = bit stride b in {1,2,4,8,16,32} x length (0 .. 3*(64/b)+3, so partial last registers and register-straddling "
        "windows occur) x input integer dtype x value pattern (random / all-max / all-zero / alternating) x window sizes x position "
        "lists with repeats; distinct = distinct (b, values, windows, positions); non-trivial = length >= 1")
EXHAUSTIVE = {"quick": False, "thorough": False}
CORRESPONDENCE_ONLY = []
ASSUMPTIONS = ["numpy uint64 shifts by >= 64 give 0", "values fit in b bits and are non-negative (the property's precondition)"]
STRIDES = [1, 2, 4, 8, 16, 32]


def _dtype_ok(dt, b):
    info = np.iinfo(dt)
    return info.max >= 2 ** b - 1


def cases(rng, tier):
    out = []
    for b in STRIDES:
        n = 64 // b
        lengths = list(range(0, 3 * n + 4))
        if tier == "quick":
            keep = {0, 1, 2, n - 1, n, n + 1, 2 * n - 1, 2 * n, 2 * n + 1, 3 * n, 3 * n + 3}
            lengths = [l for l in lengths if l in keep or l <= 5 or rng.random() < 0.15]
        for ln in lengths:
            pats = ["random", rng.choice(["max", "zero", "alt", "random"])] if tier == "quick" else ["random", "max", "zero", "alt", "random"]
            for pat in pats:
                dts = [d for d in gens.INT_DTYPES if _dtype_ok(d, b)]
                dt = rng.choice(dts)
                hi = 2 ** b - 1
                if pat == "random":
                    a = [rng.randint(0, hi) for _ in range(ln)]
                elif pat == "max":
                    a = [hi] * ln
                elif pat == "zero":
                    a = [0] * ln
                else:
                    a = [hi if i % 2 else 0 for i in range(ln)]
                allw = [w for w in range(1, n + 1) if w <= ln]
                if tier == "quick" and len(allw) > 6:
                    ws = sorted(set([1, 2, n, n - 1] + rng.sample(allw, 3)) & set(allw))
                else:
                    ws = allw
                k = rng.randint(0, 6)
                is_ = [rng.randint(0, ln - 1) for _ in range(k)] if ln else []
                if ln >= 3 and rng.random() < 0.35:
                    # a long position list (at least one register's worth) that looks like a run from its ends only: a contiguous
                    # block whose inner positions are permuted / repeated / replaced by positions elsewhere
                    lo = rng.randrange(0, ln - 2); hi2 = rng.randrange(lo + 2, ln)
                    inner = list(range(lo + 1, hi2)); rng.shuffle(inner)
                    for _ in range(rng.randint(0, 2)):
                        inner[rng.randrange(len(inner))] = rng.randrange(0, ln)
                    is_ = [lo] + inner + [hi2]
                out.append({"a": a, "b": b, "dtype": dt, "ws": ws, "is": is_, "iform": rng.choice(gens.INT_FORMS[2:]),
                            # the input as a fresh array, or as a non-contiguous VIEW (every 2nd / 3rd cell of a larger array, a matrix column)
                            "layout": rng.choice(["C", "C", "s2", "s3", "col", "rev"])})
    # SCALE: more than 4096 / 8192 registers (windows across every register boundary); implementation vs reference only
    for b, n_el in ([(32, 8200), (16, 16400), (8, 33000)] if tier == "quick" else [(32, 8200), (32, 16500), (16, 16400), (8, 33000), (4, 66000), (2, 132000), (1, 263000)]):
        hi = 2 ** b - 1
        a = [rng.choice([hi, 1, 0, rng.randint(0, hi)]) for _ in range(n_el)]
        out.append({"a": a, "b": b, "dtype": rng.choice([d for d in gens.INT_DTYPES if _dtype_ok(d, b)]), "ws": [1, 2, 64 // b], "is": [0, 1, n_el - 1, 64 // b * 4096 - 1, 64 // b * 4096],
                    "iform": "int64", "layout": "C", "long": True})
    return out


def key(p):
    return engine.stable_hash([p["a"] if not p.get("long") else [len(p["a"]), p["a"][:8]], p["b"], p["ws"], p["is"], p.get("layout")])


def nontrivial(p):
    return len(p["a"]) >= 1


def distribution(ps):
    return {"strides": gens.hist(p["b"] for p in ps), "dtypes": gens.hist(p["dtype"] for p in ps),
            "len_mod_entries": gens.hist((len(p["a"]) % (64 // p["b"]) == 0) for p in ps),
            "n_registers": gens.hist(-(-len(p["a"]) // (64 // p["b"])) for p in ps),
            "window_sizes_total": sum(len(p["ws"]) for p in ps),
            "straddling_windows": sum(1 for p in ps for w in p["ws"] if w > 1 and len(p["a"]) > 64 // p["b"])}


def _warm_up():
    """the sibling class BitMask (8-bit registers) is used once in the process before ANY BitArray exists (this module is imported
    before the kernel validation packs its first array): anything BitArray remembers per bit stride must not come from there"""
    try:
        from npstructures.bitarray import BitMask
        m = BitMask.zeros(20); m[3] = True; m[3]
    except Exception:
        pass


_warm_up()


def _layout(arr, lay):
    n = len(arr)
    if lay == "C" or n == 0:
        return arr
    if lay in ("s2", "s3"):
        k = int(lay[1]); base = np.full(k * n, 1, dtype=arr.dtype); base[::k] = arr
        return base[::k]
    if lay == "col":
        m = np.full((n, 3), 1, dtype=arr.dtype); m[:, 1] = arr
        return m[:, 1]
    return arr[::-1].copy()[::-1]          # a view with a negative stride


def run_impl(p):
    from npstructures import BitArray
    def f():
        arr = _layout(np.array(p["a"], dtype=p["dtype"]), p.get("layout", "C"))
        before = arr.copy()
        packed = BitArray.pack(arr, p["b"])
        o = {"k": "obs"}
        o["unpack"] = guarded(lambda: [int(x) for x in packed.unpack()])
        o["unpack_len"] = guarded(lambda: int(packed.unpack().shape[0]))
        o["getitem"] = guarded(lambda: [int(packed[i]) for i in range(len(p["a"]))])
        if p["is"]:
            o["getlist"] = guarded(lambda: [int(x) for x in packed[list(p["is"])].unpack()])
            o["getlist_np"] = guarded(lambda: [int(x) for x in packed[np.array(p["is"])].unpack()])
            # the selection is a bit array of its own: indexing and windows on it
            def sub_ops():
                sub = packed[list(p["is"])]
                k = len(p["is"])
                ws = [w for w in p["ws"] if w <= k][:2]
                return [[int(sub[i]) for i in range(k)], [int(sub[k - 1])] if k else [], [[int(x) for x in sub.sliding_window(w)] for w in ws]]
            o["sub_ops"] = guarded(sub_ops)
        else:
            o["getlist"] = canon([]); o["getlist_np"] = canon([])
        o["windows"] = guarded(lambda: [[int(x) for x in packed.sliding_window(w)] for w in p["ws"]])
        # the same window sizes / positions given as numpy integer scalars (and position arrays of a narrow dtype)
        frm = p.get("iform")
        o["windows_npint"] = guarded(lambda: [[int(x) for x in packed.sliding_window(gens.int_form(w, frm))] for w in p["ws"]])
        o["getitem_npint"] = guarded(lambda: [int(packed[gens.int_form(i, frm)]) for i in range(len(p["a"]))])
        o["data"] = guarded(lambda: [int(x) for x in packed._data])
        o["input_unmodified"] = canon(bool(np.array_equal(arr, before)))
        def independent():
            # what unpack / a list selection / sliding_window hands out belongs to the caller: overwriting it must not change
            # the packed array
            ref = [int(x) for x in packed._data]
            for get in (lambda: packed.unpack(), lambda: packed.sliding_window(p["ws"][0]) if p["ws"] else packed.unpack(),
                        lambda: packed[list(p["is"])].unpack() if p["is"] else packed.unpack()):
                d = get()
                if isinstance(d, np.ndarray) and d.size and d.flags.writeable:
                    d[...] = d[::-1].copy() + 1
                if [int(x) for x in packed._data] != ref or [int(x) for x in packed.unpack()] != list(p["a"]):
                    return False
            return True
        o["results_independent"] = guarded(lambda: canon(independent()))
        return o
    return guarded(f)


def oracle(p):
    a, b = p["a"], p["b"]
    st = sum(x << (b * i) for i, x in enumerate(a))
    n = 64 // b
    o = {"k": "obs"}
    o["unpack"] = canon(list(a))
    o["unpack_len"] = canon(len(a))
    o["getitem"] = canon(list(a))
    o["getlist"] = canon([a[i] for i in p["is"]])
    if p["is"]:
        sel = [a[i] for i in p["is"]]; k = len(sel)
        ws = [w for w in p["ws"] if w <= k][:2]
        sst = sum(x << (b * i) for i, x in enumerate(sel))
        o["sub_ops"] = canon([sel, [sel[-1]], [[(sst >> (b * i)) % (1 << (w * b)) for i in range(k - w + 1)] for w in ws]])
    o["getlist_np"] = canon([a[i] for i in p["is"]])
    o["windows"] = {"k": "list", "v": [canon([(st >> (b * i)) % (1 << (w * b)) for i in range(len(a) - w + 1)]) for w in p["ws"]]}
    o["windows_npint"] = o["windows"]
    o["getitem_npint"] = o["getitem"]
    o["data"] = canon([(st >> (64 * r)) % (1 << 64) for r in range(-(-len(a) // n))])
    o["input_unmodified"] = canon(True)
    o["results_independent"] = canon(True)
    return o


def lean_request(p):
    if p.get("long"):
        return None
    return {"op": "C13.all", "a": p["a"], "b": p["b"], "is": p["is"], "ws": p["ws"]}


def decode_lean(p, resp):
    def conv(j):
        o = {"k": "obs"}
        o["unpack"] = canon(j["unpack"]); o["getitem"] = canon(j["getitem"])
        o["getlist"] = refuse() if isinstance(j["getlist"], dict) else canon(j["getlist"])
        o["windows"] = {"k": "list", "v": [canon(w) for w in j["windows"]]}
        o["data"] = canon(j["data"])
        return o
    return conv(resp["L"]), conv(resp["S"])


def same(a, b):
    if isinstance(a, dict) and isinstance(b, dict) and a.get("k") == "obs" and b.get("k") == "obs":
        ks = (set(a) & set(b)) - {"k"}
        return bool(ks) and all(engine.same(a[k], b[k]) for k in ks)
    return engine.same(a, b)


def matches_finding(f, p, impl, expect):
    return False
