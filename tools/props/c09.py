"""C09 — column aggregates count every row that reaches the column, once."""
import random, warnings
import numpy as np
import engine, gens
from engine import canon, guarded, refuse

ID = "C09"
LEVEL = "proof"
LEVEL_TEXT = ("Lean 4 theorems for every ragged shape with at least one non-empty row (empty rows anywhere, very different lengths): the "
              "model of sum(axis=0) (column index of every flat position by inverting the row geometry, per-column accumulation) "
              "gives, for column j < max length, the sum of row[j] over exactly the rows with more than j cells; col_counts (negated "
              "histogram of lengths, +n at 0, cumsum) is the number of such rows; get_column_values(j) lists those cells in row order. "
              "Integers are modelled as unbounded Int (commutative-monoid reasoning only); dtype branches (bool counts, signed / "
              "unsigned widening, float) and mean = sum / counts are decided by the correspondence against numpy on the rows.")
LEVEL_NOTE = ("Trusted: Lean kernel (+ standard axioms); hand models (tied by correspondence); numpy bincount / np.add.at semantics; float "
              "column sums follow bincount's order of summation (row order), compared exactly against the same order.")
TECHNIQUE = "Lean 4 proof of column aggregates = per-column list spec; numpy-evaluated correspondence"
DESIGN_REF = "7"
LEAN_MODULES = ["NpsVerif.Props.C09"]
KERNELS = ("view2_ends", "col_slice_int")
RULE = ("cases = ragged shape with >= 1 non-empty row (exhaustive <=4 rows x <=3 cells + random up to 14 rows x 9 cells) x function "
        "(sum axis 0 via method / np.sum, mean axis 0, col_counts, get_column_values(j) for every j up to max length + 1) x dtype "
        "(bool, signed, unsigned, float; integers beyond 2**53); distinct = distinct (lengths, function, dtype); non-trivial = "
        "at least two rows reach some column; plus long rows (hundreds of cells) and arrays of about 10**5 cells in tens of thousands of short rows")
EXHAUSTIVE = {"quick": False, "thorough": False}
CORRESPONDENCE_ONLY = ["dtype branches and result dtypes", "mean(axis=0)", "float summation order"]
ASSUMPTIONS = []


def cases(rng, tier):
    out = []
    shapes = [s for s in (gens.shapes_exhaustive(4, 3) if tier == "quick" else gens.shapes_exhaustive(5, 3)) if any(l > 0 for l in s)]
    shapes = shapes + [s for s in (gens.shape_random(rng, 14, 9) for _ in range(300 if tier == "quick" else 4000)) if any(l > 0 for l in s)]
    for lens in shapes:
        for f in ("sum", "np.sum", "mean", "counts", "column"):
            if tier == "quick" and rng.random() < 0.4:
                continue
            p = {"lens": lens, "f": f, "dtype": rng.choice(gens.DTYPES), "vseed": rng.randint(0, 9999), "mode": rng.choice(["small", "small", "big", "rare", "cancel", "imin"]),
                 "derived": rng.choice(gens.DERIVATIONS)}
            if f == "column":
                # (a column number beyond every row -- also beyond the 32-bit range -- selects nothing)
                p["j"] = rng.randint(0, max(lens)) if rng.random() < 0.9 else rng.choice([2 ** 31 - 1, 2 ** 31, 2 ** 31 + 5, 2 ** 40, 2 ** 62])
                p["jform"] = rng.choice(gens.INT_FORMS)      # the column number as a Python int or a numpy integer scalar
            out.append(p)
    # SCALE: rows of several hundred cells next to short and empty ones, the longest length shared by several rows or not
    for _ in range(25 if tier == "quick" else 300):
        L = rng.choice([300, 700, 257, 513, 1200])
        lens = [rng.choice([L, L, 0, 3, 5, L - 256, L // 2]) for _ in range(rng.randint(2, 6))]
        if max(lens) == 0:
            lens[0] = L
        for f in ("sum", "mean", "counts", "np.sum"):
            out.append({"lens": lens, "f": f, "dtype": rng.choice(["int64", "bool", "int8", "float64", "uint16"]), "vseed": rng.randint(0, 9999), "mode": "small", "derived": None, "big": True})
    # SCALE in the number of cells: more than 2**16 / 2**17 cells in many short rows (work done block by block must cover every cell)
    for i in range(3 if tier == "quick" else 12):
        nrows = rng.choice([25000, 30011, 40000])
        lens = [rng.choice([0, 1, 2, 3, 5, 8]) for _ in range(nrows)]
        out.append({"lens": lens, "f": ["sum", "mean", "np.sum", "counts"][i % 4], "dtype": rng.choice(["int32", "bool", "float64", "uint8", "int64"]), "vseed": rng.randint(0, 9999),
                    "mode": "small", "derived": None, "big": True})
    return out


def key(p):
    return engine.stable_hash([p["lens"], p["f"], p["dtype"], p.get("j"), p["mode"], p.get("derived"), p.get("jform")])


def nontrivial(p):
    return sum(1 for l in p["lens"] if l > 0) >= 2


def distribution(ps):
    d = gens.shape_stats([p["lens"] for p in ps])
    d["functions"] = gens.hist(p["f"] for p in ps)
    d["dtypes"] = gens.hist(p["dtype"] for p in ps)
    return d


def _vals(p):
    rnd = random.Random(p["vseed"])
    n = sum(p["lens"])
    dt = np.dtype(p["dtype"])
    if p["mode"] == "big" and dt.name in ("int64", "uint64"):
        return np.array([2 ** 53 + rnd.randint(1, 9) for _ in range(n)], dtype=dt)
    if p["mode"] == "rare" and dt.kind == "f":
        # NaN / infinities / signed zeros among ordinary values (column sums and means must propagate them as numpy does)
        return np.array([rnd.choice([float("nan"), float("inf"), float("-inf"), -0.0, 1.5, 2.5, 4.0, 7.0]) for _ in range(n)], dtype=dt)
    if p["mode"] == "imin" and dt.kind == "i" and n:
        # small cells and ONE cell equal to the dtype's most negative value (whose magnitude no signed integer holds)
        v = gens.cell_values(p["dtype"], n, rnd, mode="small")
        v[rnd.randrange(n)] = np.iinfo(dt).min
        return v
    if p["mode"] == "cancel":
        return gens.cell_values(p["dtype"], n, rnd, mode="cancel")
    return gens.cell_values(p["dtype"], n, rnd, mode="small")


def _rows(p):
    vals = _vals(p)
    rows, k = [], 0
    for l in p["lens"]:
        rows.append(vals[k:k + l]); k += l
    return vals, rows


def run_impl(p):
    from npstructures import RaggedArray
    def g():
        vals, _ = _rows(p)
        ra = gens.derive_ra(RaggedArray(vals.copy(), list(p["lens"])), p.get("derived"))
        f = p["f"]
        with np.errstate(all="ignore"), warnings.catch_warnings():
            warnings.simplefilter("ignore")
            if f == "sum":
                return ra.sum(axis=0)
            if f == "np.sum":
                return np.sum(ra, axis=0)
            if f == "mean":
                return ra.mean(axis=0)
            if f == "counts":
                return [int(x) for x in ra.col_counts()]
            return ra.get_column_values(p["j"])
    def h():
        # the same function on the same object: first call; the operand must be unchanged (rows, lengths, cells); after a write
        # (fill / a cell through the flat view / an item assignment) the function must see the new cells
        from npstructures import RaggedArray
        vals, _ = _rows(p)
        ra = gens.derive_ra(RaggedArray(vals.copy(), list(p["lens"])), p.get("derived"))
        raw = _call(p, ra)
        first = _cn(p, raw)
        # the caller owns the result: writing into it must not change what the next call reports (no shared cache)
        if isinstance(raw, np.ndarray) and raw.flags.writeable and raw.size:
            raw[...] = np.ones(1, dtype=raw.dtype)[0] if raw.dtype.kind != "b" else ~raw
        again = _cn(p, _call(p, ra))
        unchanged = bool([int(l) for l in ra.lengths] == list(p["lens"]) and np.array_equal(np.asarray(ra.ravel()).view(np.uint8), vals.view(np.uint8))
                         and [len(r) for r in ra.tolist()] == list(p["lens"]))
        _write(p, ra)
        second = _cn(p, _call(p, ra))
        return {"k": "obs", "value": first, "again_after_writing_into_result": again, "operand_unchanged": canon(unchanged), "after_write": canon(second)}
    return guarded(h)


def _cn(p, x):
    return canon([int(v) for v in x]) if p["f"] == "counts" else canon(x)


def _call(p, ra):
    f = p["f"]
    with np.errstate(all="ignore"), warnings.catch_warnings():
        warnings.simplefilter("ignore")
        if f == "sum":
            return ra.sum(axis=0)
        if f == "np.sum":
            return np.sum(ra, axis=0)
        if f == "mean":
            return ra.mean(axis=0)
        if f == "counts":
            return ra.col_counts()
        return ra.get_column_values(gens.int_form(p["j"], p.get("jform")))


def _write(p, obj):
    """the write of the history, on a RaggedArray (implementation) or on the list of numpy rows (reference)"""
    how = ["fill", "ravel", "item"][p["vseed"] % 3]
    one = np.ones(1, dtype=np.dtype(p["dtype"]))[0]
    nonempty = [i for i, l in enumerate(p["lens"]) if l > 0]
    if isinstance(obj, list):
        if how == "fill" or not nonempty:
            for r in obj:
                r[...] = one
        elif how == "ravel":
            obj[nonempty[-1]][-1] = one          # the last cell of the flat buffer
        else:
            obj[nonempty[0]][0] = one
        return
    if how == "fill" or not nonempty:
        obj.fill(one)
    elif how == "ravel":
        obj.ravel()[-1] = one
    else:
        obj[nonempty[0], 0] = one


def oracle(p):
    vals, rows = _rows(p)
    rows = [r.copy() for r in rows]
    first = _oracle_value(p, rows)
    _write(p, rows)
    return {"k": "obs", "value": first, "again_after_writing_into_result": first, "operand_unchanged": canon(True), "after_write": _oracle_value(p, rows)}


def _oracle_value(p, rows):
    vals = _vals(p)
    w = max(p["lens"])
    f = p["f"]
    dt = vals.dtype
    with np.errstate(all="ignore"), warnings.catch_warnings():
        warnings.simplefilter("ignore")
        if f in ("sum", "np.sum"):
            cols = []
            for j in range(w):
                col = np.array([r[j] for r in rows if len(r) > j], dtype=dt)
                if dt.kind == "f":
                    acc = np.float64(0.0)          # bincount accumulates in float64, in row order
                    for x in col:
                        acc = acc + np.float64(x)
                    cols.append(acc)
                else:
                    cols.append(np.sum(col))
            rdt = np.dtype("float64") if dt.kind == "f" else (np.dtype("int64") if dt.kind in "ib" else np.dtype("uint64"))
            return canon(np.array(cols, dtype=rdt))
        if f == "mean":
            cols = []
            for j in range(w):
                col = [np.float64(r[j]) for r in rows if len(r) > j]
                acc = np.float64(0.0)
                for x in col:
                    acc = acc + x
                cols.append(acc / len(col))
            return canon(np.array(cols, dtype=np.float64).astype(dt if dt.kind == "f" else np.float64))
        if f == "counts":
            return canon([sum(1 for r in rows if len(r) > j) for j in range(w)])
        j = p["j"]
        return canon(np.array([r[j] for r in rows if len(r) > j], dtype=dt))


def _small_int(p):
    return np.dtype(p["dtype"]).kind in "iu" and p["mode"] == "small"


def lean_request(p):
    if p.get("big"):
        return None
    f = p["f"]
    vals, rows = _rows(p)
    if f == "counts":
        return {"op": "C09.cols", "f": "counts", "rows": [[0] * l for l in p["lens"]]}
    if f == "column":
        return {"op": "C09.cols", "f": "column", "rows": gens.rows_of_ids(p["lens"]), "j": p["j"]}
    if f in ("sum", "np.sum") and _small_int(p):
        return {"op": "C09.cols", "f": "sum", "rows": [[int(x) for x in r] for r in rows]}
    return None


def decode_lean(p, resp):
    vals, rows = _rows(p)
    f = p["f"]
    def conv(j):
        if isinstance(j, dict) and j.get("refuse"):
            return refuse()
        if f == "counts":
            return {"k": "obs", "value": canon([int(x) for x in j])}
        if f == "column":
            return {"k": "obs", "value": canon(np.array([vals[i] for i in j["v"]], dtype=vals.dtype))}
        rdt = np.dtype("int64") if vals.dtype.kind == "i" else np.dtype("uint64")
        return {"k": "obs", "value": canon(np.array(j, dtype=rdt))}
    return conv(resp["L"]), conv(resp["S"])


def same(a, b):
    if isinstance(a, dict) and isinstance(b, dict) and a.get("k") == "obs" and b.get("k") == "obs":
        ks = (set(a) & set(b)) - {"k"}
        return bool(ks) and all(engine.same_cells(a[k], b[k]) for k in ks)
    return engine.same_cells(a, b)


def matches_finding(f, p, impl, expect):
    return False
