"""C10 — looking at an array never changes anything."""
import random
import numpy as np
import engine, gens, ragidx, proggen
from engine import canon, guarded, refuse

ID = "C10"
LEVEL = "proof"
LEVEL_TEXT = ("Lean 4 theorems on the heap model of C06: a read-only statement (read, indexed read, row sums) leaves the state unchanged "
              "(C10_read_pure), hence for EVERY history and EVERY position, inserting a read changes nothing but its own observation: "
              "the trace with the read removed equals the trace of the history without it (C10_read_insertion, by induction over the "
              "history); together with the refinement of C06 every array obtained by selection has one definite content -- its rows at "
              "selection time -- independent of when it is inspected relative to writes to its source. The tie to the code is a "
              "metamorphic correspondence: each random history is run on real objects with and without extra read-only operations "
              "(repr, str, iteration, ravel, size/shape, tolist, indexing, ufuncs, reductions, nonzero, equals) inserted at random "
              "positions; both traces must agree with each other, with the model and with the reference semantics.")
LEVEL_NOTE = ("Trusted: Lean kernel (+ standard axioms); that reads are pure in the model rests on the heap model's allocation discipline, "
              "which is hand-modelled (selections own their buffer since the fix of F10a) and tied by the metamorphic correspondence: "
              "the implementation's reads DO run ravel()/_flatten_myself internally, and a read that mutated observable state, or a "
              "selection that stayed lazy, shows up as a difference between the two runs.")
TECHNIQUE = "Lean 4 proof that reads are state-preserving in the heap model; metamorphic correspondence with inserted reads"
DESIGN_REF = "7"
LEAN_MODULES = ["NpsVerif.Props.C10"]
KERNELS = ("view2_ends", "calc_lengths", "pos_col_slice", "col_slice_slice", "col_slice_int")
RULE = ("cases = random histories (as C06: 30% select -> write-to-source -> read-selection, 30% derivation chains with writes into "
        "intermediate arrays, incl. writes through the numpy array an array was constructed over) x random insertion of 1..6 "
        "read-only operations of 12 kinds on arbitrary live arrays at arbitrary positions; every case runs the history twice on real "
        "objects (with / without the extra reads); distinct = distinct (history, insertions); non-trivial = history contains an "
        "assignment and a selection; plus families for float / mask aliases, printing, per-row windows, repeats after allocations, and the same row-wise reduction on unrelated arrays of other element types earlier in the process (every result against numpy row by row); np.unique is a program statement and some arrays have no row of more than one cell; result ownership: for 24 read-only operations on sources of every shape, a write into the source leaves the result as it was and vice versa")
EXHAUSTIVE = {"quick": False, "thorough": False}
CORRESPONDENCE_ONLY = ["the implementation's internal materialisation on read (ravel / _flatten_myself)"]
ASSUMPTIONS = []


def _sel_write_read(rng):
    """the critical pattern: b = a[sel]; a[...] = v; read b"""
    lens = gens.shape_random(rng, 5, 4)
    if sum(lens) == 0:
        lens = [2, 0, 3]
    cnt = [0]
    def fresh():
        cnt[0] += 1; return 200 + cnt[0]
    rows = [[fresh() % 60 for _ in range(l)] for l in lens]
    n, m = len(lens), max(lens)
    r = ragidx.rowsel_random(n, rng)
    if r["t"] in ("int", "all"):
        r = {"t": "slice", "a": None, "b": None, "k": rng.choice([None, -1, 2])}
    c = ragidx.colsel_random(m, rng) if rng.random() < 0.5 else None
    if c is not None and c["t"] == "int":
        c = {"t": "slice", "a": None, "b": None, "k": -1}
    wr = ragidx.rowsel_random(n, rng)
    if wr["t"] == "list":
        wr = {"t": "all"}
    widx = {"r": wr, "c": None}
    prog = [{"s": "new", "rows": rows}, {"s": "select", "x": 0, "idx": {"r": r, "c": c}},
            {"s": "assign", "x": 0, "idx": widx, "val": {"t": "scalar", "v": 999}},
            {"s": "read", "x": 1}, {"s": "read", "x": 0}]
    if rng.random() < 0.5:
        prog.insert(3, {"s": "assign", "x": 1, "idx": {"r": {"t": "all"}, "c": None}, "val": {"t": "scalar", "v": -5}})
    return prog


def cases(rng, tier):
    out = []
    for i in range(2000 if tier == "quick" else 30000):
        u = rng.random()
        prog = _sel_write_read(rng) if u < 0.3 else (proggen.gen_resample_program(rng) if u < 0.4 else
                                                     proggen.gen_program(rng, rng.randint(2, 9), chain=(u > 0.7)))
        nvars = sum(1 for s in prog if s["s"] not in ("assign", "poke", "fill", "read", "read_idx", "read_sum", "read_meta", "read_col"))
        extra = {}
        for _ in range(rng.randint(1, 6)):
            pos = rng.randint(1, len(prog) - 1) if len(prog) > 1 else 0
            extra.setdefault(str(pos), []).append([rng.randint(0, max(0, nvars - 1)), rng.choice(proggen.EXTRA_READS)])
        # model-level inserted read (for the Lean side): one read statement at a random position
        out.append({"prog": prog, "extra": extra, "variant": rng.randint(0, 29),
                    "ins_pos": rng.randint(1, len(prog)), "ins_var": rng.randint(0, max(0, nvars - 1)),
                    "ins_kind": rng.choice(["read", "read_sum"])})
    out += _float_cases(rng, 400 if tier == "quick" else 6000)
    out += _mask_cases(rng, 300 if tier == "quick" else 4000)
    out += _print_cases(rng, 60 if tier == "quick" else 600)
    out += _slice_cases(rng, 150 if tier == "quick" else 2000)
    out += _repeat_cases(rng, 300 if tier == "quick" else 4000)
    out += _xd_cases(rng, 150 if tier == "quick" else 2000)
    out += _own_cases(rng, 400 if tier == "quick" else 5000)
    return out


OWN_OPS = ["max", "min", "argmax", "sum", "prod", "mean", "any", "all", "padded", "padded_left", "cumsum", "sort", "unique", "astype", "neg", "sum0", "col_counts",
           "colvals", "nonzero", "tolist_rows", "np.max", "np.min", "rows", "mask"]      # (an integer row ra[i] is a view of the row, as in numpy: not in the list)


def _own_cases(rng, n):
    """what a read-only operation hands out is a value of its own: a later write into the source leaves it as it was, and a write
    into it leaves the source as it was -- whatever the shape of the source (rows of one cell, equally long rows, a single row, ...)"""
    out = []
    for _ in range(n):
        kind = rng.choice(["ones", "rect", "single", "ragged", "ragged"])
        if kind == "ones":
            lens = [1] * rng.randint(1, 5)
        elif kind == "rect":
            lens = [rng.randint(1, 4)] * rng.randint(1, 4)
        elif kind == "single":
            lens = [rng.randint(1, 5)]
        else:
            lens = [rng.choice([0, 1, 2, 3]) for _ in range(rng.randint(1, 5))]
            if sum(lens) == 0:
                lens[0] = 2
        out.append({"own": {"lens": lens, "dtype": rng.choice(["int64", "float64", "int32", "bool"]), "op": rng.choice(OWN_OPS), "write": rng.choice(["cell", "fill", "flat", "iadd"])}})
    return out


def _run_own(q):
    import numpy as np, warnings
    from npstructures import RaggedArray
    n = sum(q["lens"])
    base = (((np.arange(n) * 7) % 5) + 1).astype(q["dtype"])
    ra = RaggedArray(base.copy(), list(q["lens"]))
    o = q["op"]
    def op():
        with np.errstate(all="ignore"), warnings.catch_warnings():
            warnings.simplefilter("ignore")
            if o in ("max", "min", "argmax", "sum", "prod", "mean", "any", "all"):
                return getattr(ra, o)(axis=-1)
            if o in ("np.max", "np.min"):
                return getattr(np, o[3:])(ra, axis=-1)
            if o == "padded": return ra.as_padded_matrix()
            if o == "padded_left": return ra.as_padded_matrix(side="left")
            if o == "cumsum": return np.cumsum(ra.astype(np.int64), axis=-1)
            if o == "sort": return ra.sort(axis=-1)
            if o == "unique": return np.unique(ra, axis=-1)
            if o == "astype": return ra.astype(ra.dtype)
            if o == "neg": return np.logical_not(ra) if ra.dtype == bool else -ra
            if o == "sum0": return ra.sum(axis=0)
            if o == "col_counts": return ra.col_counts()
            if o == "colvals": return ra.get_column_values(0)
            if o == "nonzero": return np.concatenate([np.asarray(x) for x in ra.nonzero()])
            if o == "tolist_rows": return np.concatenate([np.asarray(r) for r in ra]) if False else [np.array(r) for r in ra.tolist()][0]
            if o == "row": return ra[0]
            if o == "rows": return ra[[0, -1]] if len(q["lens"]) else ra[:0]
            if o == "mask": return ra[ra > 1]
    def snap(x):
        if isinstance(x, RaggedArray):
            return [str(x.dtype), [int(v) for v in x.lengths], np.asarray(x.ravel()).tobytes().hex()]
        x = np.asarray(x)
        return [str(x.dtype), list(x.shape), x.tobytes().hex()]
    try:
        res = op()
    except Exception:
        return [True, "refused"]
    before = snap(res)
    src_before = snap(ra)
    # 1. a write into the source
    one = np.array([0 if q["dtype"] != "bool" else False]).astype(q["dtype"])[0]
    nonempty = [i for i, l in enumerate(q["lens"]) if l > 0]
    if q["write"] == "cell":
        ra[nonempty[0], 0] = one
        ra[nonempty[-1], q["lens"][nonempty[-1]] - 1] = one
    elif q["write"] == "fill":
        ra.fill(one)
    elif q["write"] == "flat":
        ra.ravel()[...] = one
    else:
        if q["dtype"] == "bool":
            np.logical_not(ra, out=ra)
        else:
            ra += 1
    if snap(res) != before:
        return [False, "the result of %s changed when its source was written to" % o]
    # 2. a write into the result (when it can be written to): the source as it was at the time
    src_now = snap(ra)
    target = res.ravel() if isinstance(res, RaggedArray) else res
    if isinstance(target, np.ndarray) and target.size and target.flags.writeable and (o != "row"):
        target[...] = np.zeros(1, dtype=target.dtype)[0] if target.reshape(-1)[0] != 0 else np.ones(1, dtype=target.dtype)[0]
        if snap(ra) != src_now:
            return [False, "writing into the result of %s changed its source" % o]
    return [True, None]


XD_UFUNCS = {"add": ["int64", "uint64", "float64", "float32"], "multiply": ["int64", "uint64", "float64", "float32"],
             "bitwise_and": ["int8", "uint8", "uint16", "int32", "int64", "uint64", "bool"], "bitwise_or": ["int8", "uint8", "uint16", "int64", "bool"],
             "bitwise_xor": ["uint8", "uint16", "int64"], "logical_and": ["int64", "float64", "bool", "uint8"], "logical_or": ["int64", "float64", "bool"],
             "maximum": ["int64", "float64", "uint8"]}


def _xd_cases(rng, n):
    """the same row-wise reduction on UNRELATED arrays of different element types, one after the other in one process (and with
    further such reductions inserted in between): every result is what numpy gives row by row -- nothing an earlier reduction of
    another array left behind may enter a later one"""
    out = []
    def step(uf):
        dt = rng.choice(XD_UFUNCS[uf])
        lens = [rng.choice([0, 1, 2, 3]) for _ in range(rng.randint(1, 5))]
        if uf == "maximum":
            lens = [max(l, 1) for l in lens]
        return {"uf": uf, "dtype": dt, "lens": lens, "vseed": rng.randint(0, 9999), "form": rng.randint(0, 1)}
    for _ in range(n):
        ufs = [rng.choice(list(XD_UFUNCS)) for _ in range(2)]
        main = [step(u) for u in ufs for _ in range(2)]
        rng.shuffle(main)
        extra = [[step(rng.choice(ufs)) for _ in range(rng.randint(0, 2))] for _ in main]
        out.append({"xd": {"main": main, "extra": extra}})
    return out


def _xd_rows(st):
    import numpy as np
    rnd = random.Random(st["vseed"])
    dt = np.dtype(st["dtype"])
    uf = st["uf"]
    def cell():
        if dt.kind == "b":
            return rnd.random() < 0.6
        if uf == "add":
            return rnd.randint(0, 3)
        if uf == "multiply":
            return rnd.randint(1, 3)
        if uf.startswith("logical"):
            return rnd.choice([0, 1, 2])
        if dt.kind == "f":
            return rnd.choice([0.5, 1.5, -2.0, 4.0])
        info = np.iinfo(dt)
        return rnd.choice([info.max, info.max - 1, info.max // 2 + 1, 1, 5, 1023 & info.max, info.min, 0])
    return [np.array([cell() for _ in range(l)], dtype=dt) for l in st["lens"]]


def _xd_one(st):
    import numpy as np, warnings
    from npstructures import RaggedArray
    rows = _xd_rows(st)
    flat = np.concatenate(rows) if rows else np.zeros(0, dtype=st["dtype"])
    ra = RaggedArray(flat.astype(st["dtype"]), list(st["lens"]))
    uf = getattr(np, st["uf"])
    with np.errstate(all="ignore"), warnings.catch_warnings():
        warnings.simplefilter("ignore")
        if st["form"] and st["uf"] in ("add", "logical_and", "logical_or", "multiply", "maximum"):
            r = getattr(ra, {"add": "sum", "logical_and": "all", "logical_or": "any", "multiply": "prod", "maximum": "max"}[st["uf"]])(axis=-1)
        else:
            r = uf.reduce(ra, axis=-1)
        r = np.asarray(r)
        want = np.array([uf.reduce(x) for x in rows])
    return [str(r.dtype), r.tolist()], [str(want.dtype), want.tolist()]


def _run_xd(q, with_reads):
    got, want = [], []
    for st, ex in zip(q["main"], q["extra"]):
        if with_reads:
            for e in ex:
                try:
                    _xd_one(e)
                except Exception:
                    pass
        try:
            g, w = _xd_one(st)
        except Exception as e:
            g, w = ["refused", type(e).__name__], None
        got.append(g); want.append(w)
    return got, want


SLICE_READS = ["str", "sum", "tolist", "iter", "ravel", "len", "row", "neg", "nothing"]


def _slice_cases(rng, n):
    """per-row windows (ragged_slice) of a ragged array or a matrix: what the result holds after a later write into the source must not
    depend on whether it was looked at before that write"""
    out = []
    for _ in range(n):
        lens = [rng.randint(0, 5) for _ in range(rng.randint(1, 5))]
        if rng.random() < 0.3:
            lens = [rng.randint(1, 5)] * len(lens)          # a matrix source
        if sum(lens) == 0:
            lens[0] = 2
        ss = [rng.randint(0, l) for l in lens]; es = [rng.randint(s, l) for s, l in zip(ss, lens)]
        out.append({"rs": {"lens": lens, "matrix": len(set(lens)) == 1 and rng.random() < 0.6, "starts": ss, "ends": es,
                           "reads": [rng.choice(SLICE_READS) for _ in range(rng.randint(1, 2))], "write": rng.choice(["cell", "row", "fill", "flat"])}})
    return out


def _run_slice(q, with_reads):
    import numpy as np
    from npstructures import RaggedArray, ragged_slice
    n = sum(q["lens"])
    src = RaggedArray(np.arange(1, n + 1), list(q["lens"]))
    if q["matrix"]:
        src = np.arange(1, n + 1).reshape(len(q["lens"]), q["lens"][0])
    # (an array built DIRECTLY over (start, length) intervals of another buffer -- RaggedArray(buffer, RaggedView(...)) -- is the
    #  library's internal lazy form: it follows its buffer until first materialised, on the unchanged library too; not generated)
    s = ragged_slice(src, np.array(q["starts"]), np.array(q["ends"]))
    if with_reads:
        for kind in q["reads"]:
            if kind == "str": str(s); repr(s)
            elif kind == "sum": s.sum(axis=-1)
            elif kind == "tolist": s.tolist()
            elif kind == "iter": [r for r in s]
            elif kind == "ravel": s.ravel()
            elif kind == "len": len(s); s.shape; s.size
            elif kind == "row": s[0]; s[-1:]
            elif kind == "neg": -s
    nonempty = [i for i, l in enumerate(q["lens"]) if l > 0]
    i = nonempty[0]
    if q["write"] == "cell":
        src[i, 0] = -99
        src[nonempty[-1], q["lens"][nonempty[-1]] - 1] = -98
    elif q["write"] == "row":
        src[i] = [-7] * q["lens"][i]
    elif q["write"] == "fill":
        src.fill(-5)
    else:
        src.ravel()[...] = -3
    size_then = int(s.size)
    # ... and a write into the windows themselves: the source keeps what it had
    src_then = src.tolist() if hasattr(src, "tolist") else None
    wrote = False
    if s.size:
        j = [i for i, l in enumerate(s.lengths) if l > 0][0]
        s[j, 0] = -55
        wrote = True
    return [size_then, s.tolist(), [int(x) for x in s.lengths], src.tolist() == src_then, wrote]


REPEAT_OPS = ["argmax", "argmin", "max", "min", "sum", "mean", "any", "cumsum", "sort", "nonzero", "col_counts", "sum0", "argmax", "argmin", "argmax", "argmin", "max", "min"]


def _repeat_cases(rng, n):
    """the same read-only operation twice on the same array, with unrelated allocations of the same sizes made and released in
    between: the two answers are equal (an answer must not be made of whatever the allocator hands out)"""
    out = []
    for _ in range(n):
        big = rng.random() < 0.2
        lens = [rng.choice([0, 0, 1, 2, 3]) for _ in range(rng.randint(150, 400) if big else rng.randint(1, 9))]
        out.append({"rp": {"lens": lens, "dtype": rng.choice(["int64", "float64", "int32", "bool"]), "op": rng.choice(REPEAT_OPS)}})
    return out


def _run_repeat(q):
    import numpy as np, warnings
    from npstructures import RaggedArray
    n = sum(q["lens"])
    ra = RaggedArray(((np.arange(n) * 7) % 5).astype(q["dtype"]), list(q["lens"]))
    def op():
        o = q["op"]
        with np.errstate(all="ignore"), warnings.catch_warnings():
            warnings.simplefilter("ignore")
            if o in ("argmax", "argmin", "max", "min", "sum", "mean", "any"):
                return np.asarray(getattr(ra, o)(axis=-1))
            if o == "cumsum":
                return np.asarray(np.cumsum(ra.astype(np.int64), axis=-1).ravel())
            if o == "sort":
                return np.asarray(ra.sort(axis=-1).ravel())
            if o == "nonzero":
                return np.concatenate([np.asarray(x) for x in ra.nonzero()])
            if o == "col_counts":
                return np.asarray(ra.col_counts())
            return np.asarray(ra.sum(axis=0)) if n else np.zeros(0)
    def poison():
        # blocks of the sizes the operation is likely to ask for, filled with a pattern and released again
        for m in (len(q["lens"]), n, len(q["lens"]) + 1, n + 1, max(q["lens"] + [1])):
            for dt in (np.int64, np.float64, np.bool_, np.int32):
                xs = [np.full(max(m, 1), 85, dtype=dt) for _ in range(3)]
                del xs
    def run():
        try:
            return op()
        except Exception:
            return np.array([-12345])          # (a refusal is an answer too: it has to be repeated)
    first = run()
    poison()
    second = run()
    poison()
    third = run()
    return [first.tobytes() == second.tobytes() and second.tobytes() == third.tobytes(), first.tolist() if first.tobytes() != second.tobytes() else None, second.tolist() if first.tobytes() != second.tobytes() else None]


PRINT_READS = ["repr", "str", "repr_row", "repr_sel", "format", "iter", "tolist", "repr_sum", "repr_shape"]


def _print_cases(rng, n):
    """printing arrays of any size (a few cells, around 100 cells, beyond numpy's summarising threshold) under the CALLER's own
    numpy print / error settings: the process-wide settings and everything printed afterwards (dense or ragged) must not depend
    on what was printed before"""
    out = []
    for _ in range(n):
        ncells = rng.choice([3, 40, 99, 100, 101, 150, 400, 1001, 1500])
        nrows = rng.choice([1, 2, 7, 40])
        cuts = sorted(rng.randint(0, ncells) for _ in range(nrows - 1))
        lens = [b - a for a, b in zip([0] + cuts, cuts + [ncells])]
        out.append({"pr": {"lens": lens, "dtype": rng.choice(["int64", "float64", "bool", "int8"]),
                           "opts": {"linewidth": rng.choice([40, 75, 120, 200]), "precision": rng.choice([3, 8]), "threshold": rng.choice([50, 1000, 5000]),
                                    "edgeitems": rng.choice([2, 3])},
                           "err": rng.choice(["warn", "ignore"]),
                           "reads": [rng.choice(PRINT_READS) for _ in range(rng.randint(1, 3))]}})
    return out


def _run_print(q, with_reads):
    import numpy as np, warnings
    from npstructures import RaggedArray
    saved, saved_err = np.get_printoptions(), np.geterr()
    try:
        np.set_printoptions(**q["opts"]); np.seterr(all=q["err"])
        n = sum(q["lens"])
        ra = RaggedArray((np.arange(n) % 7).astype(q["dtype"]), list(q["lens"]))
        if with_reads:
            with warnings.catch_warnings():
                warnings.simplefilter("ignore")
                for kind in q["reads"]:
                    if kind == "repr": repr(ra)
                    elif kind == "str": str(ra)
                    elif kind == "repr_row": repr(ra[0]); str(ra[-1])
                    elif kind == "repr_sel": repr(ra[::-1]); repr(ra[:, :3])
                    elif kind == "format": "{} {!r}".format(ra, ra)
                    elif kind == "iter": [str(r) for r in ra]
                    elif kind == "tolist": str(ra.tolist())
                    elif kind == "repr_sum": repr(ra.astype(float).sum(axis=-1)); repr(ra.lengths)
                    elif kind == "repr_shape": repr(ra.shape); str(ra._shape)
        dense = np.arange(60).reshape(3, 20) * 1.5
        po = {k: v for k, v in np.get_printoptions().items() if k != "formatter"}
        return [str(sorted(po.items())), str(sorted(np.geterr().items())), repr(dense), str(np.arange(2000)), repr(ra), str(ra[:2])]
    finally:
        np.set_printoptions(**saved); np.seterr(**saved_err)


FLOAT_READS = ["argmax", "argmin", "np.argmax", "np.argmin", "max", "min", "sum", "mean", "sort", "cumsum", "tolist", "ravel", "str", "isnan", "nonzero"]
ALIASES = ["self", "row", "all", "ravel", "buffer", "sel_rows", "fill"]


def _float_cases(rng, n):
    """float arrays: read-only operations (arg-extrema, extrema, sorts, ...) before a write of NaN / inf / a number that reaches the
    cells THROUGH SOME OTHER OBJECT (a row view, the whole-array selection, the flat view, the constructor's buffer) or through the
    array itself; whatever the alias semantics are, the observations afterwards must not depend on the reads"""
    out = []
    for _ in range(n):
        rows = [[float(rng.randint(-9, 9)) for _ in range(rng.randint(1, 5))] for _ in range(rng.randint(1, 5))]
        i = rng.randrange(len(rows)); j = rng.randrange(len(rows[i]))
        out.append({"fl": {"rows": rows, "dtype": rng.choice(["float64", "float64", "float32"]),
                           "before": [rng.choice(FLOAT_READS) for _ in range(rng.randint(1, 3))],
                           "alias": rng.choice(ALIASES), "pos": [i, j], "val": rng.choice(["nan", "nan", "inf", "-inf", 100.0, -100.0]),
                           "between": [rng.choice(FLOAT_READS) for _ in range(rng.randint(0, 2))],
                           "second": rng.random() < 0.4}})
    return out


def _float_read(a, kind):
    import numpy as np
    if kind == "argmax": a.argmax(axis=-1)
    elif kind == "argmin": a.argmin(axis=-1)
    elif kind == "np.argmax": np.argmax(a, axis=-1)
    elif kind == "np.argmin": np.argmin(a, axis=-1)
    elif kind == "max": a.max(axis=-1)
    elif kind == "min": a.min(axis=-1)
    elif kind == "sum": a.sum(axis=-1); a.sum(axis=0)
    elif kind == "mean": a.mean(axis=-1)
    elif kind == "sort": np.sort(a, axis=-1)
    elif kind == "cumsum": np.cumsum(a, axis=-1)
    elif kind == "tolist": a.tolist()
    elif kind == "ravel": a.ravel()
    elif kind == "str": str(a); repr(a)
    elif kind == "isnan": np.isnan(a); (a == a)
    elif kind == "nonzero": a.nonzero()


def _run_float(q, with_reads):
    import numpy as np
    from npstructures import RaggedArray
    rows = q["rows"]
    data = np.array([v for r in rows for v in r], dtype=q["dtype"])
    a = RaggedArray(data, [len(r) for r in rows])
    val = {"nan": float("nan"), "inf": float("inf"), "-inf": float("-inf")}.get(q["val"], q["val"])
    i, j = q["pos"]
    flat = sum(len(r) for r in rows[:i]) + j
    def reads(kinds):
        if with_reads:
            for k in kinds:
                try:
                    _float_read(a, k)
                except Exception:
                    pass
    def write(v):
        al = q["alias"]
        if al == "self": a[i, j] = v
        elif al == "row": a[i][j] = v
        elif al == "all":
            b = a[...]; b[i, j] = v
        elif al == "ravel": a.ravel()[flat] = v
        elif al == "buffer": data[flat] = v
        elif al == "sel_rows":
            b = a[i:i + 1]; b[0, j] = v
        elif al == "fill":
            a[i:i + 1].fill(v)
    reads(q["before"])
    write(val)
    reads(q["between"])
    if q["second"]:
        write(-val if val == val else 5.0)
        reads(q["between"])
    def c(x):
        return [None if (isinstance(v, float) and v != v) else v for v in np.asarray(x, dtype=float).tolist()] if not isinstance(x, list) else x
    obs = []
    for f in (lambda: [[None if v != v else v for v in r] for r in a.tolist()], lambda: c(a.argmax(axis=-1)), lambda: c(a.argmin(axis=-1)),
              lambda: c(a.max(axis=-1)), lambda: c(a.min(axis=-1)), lambda: c(np.sort(a, axis=-1).ravel()), lambda: c(np.cumsum(a, axis=-1).ravel())):
        try:
            obs.append(f())
        except Exception as e:
            obs.append({"k": "refuse"})
    return obs


MASK_READS = ["index", "nonzero", "np.nonzero", "where", "subset", "sum", "tolist", "any"]
MASK_WRITES = ["self", "row", "all", "ravel", "buffer", "iand", "ixor", "out"]


def _mask_cases(rng, n):
    """boolean arrays used as masks: read-only uses of the mask (a[mask], nonzero, where, ...) before the mask's cells change
    through some other route than mask[...] = (a row view, the flat view, an in-place operator, out=); what the mask selects
    afterwards must not depend on the earlier reads"""
    out = []
    for _ in range(n):
        lens = [rng.randint(0, 4) for _ in range(rng.randint(1, 5))]
        if sum(lens) == 0:
            lens[0] = 2
        bits = [[rng.random() < 0.6 for _ in range(l)] for l in lens]
        cand = [(i, j) for i, l in enumerate(lens) for j in range(l)]
        out.append({"mk": {"lens": lens, "bits": bits, "before": [rng.choice(MASK_READS) for _ in range(rng.randint(1, 3))],
                           "write": rng.choice(MASK_WRITES), "pos": list(rng.choice(cand)), "flip": [[rng.random() < 0.4 for _ in range(l)] for l in lens],
                           "between": [rng.choice(MASK_READS) for _ in range(rng.randint(0, 2))]}})
    return out


def _run_mask(q, with_reads):
    import numpy as np
    from npstructures import RaggedArray
    lens = q["lens"]
    n = sum(lens)
    a = RaggedArray(np.arange(10, 10 + n), lens)
    data = np.array([b for r in q["bits"] for b in r], dtype=bool)
    mask = RaggedArray(data, lens)
    other = RaggedArray(np.array([b for r in q["flip"] for b in r], dtype=bool), lens)
    i, j = q["pos"]
    flat = sum(lens[:i]) + j
    def read(kind):
        if kind == "index": a[mask]
        elif kind == "nonzero": mask.nonzero()
        elif kind == "np.nonzero": np.nonzero(mask)
        elif kind == "where": np.where(mask, a, 0)
        elif kind == "subset": a.subset(mask)
        elif kind == "sum": mask.sum(axis=-1)
        elif kind == "tolist": mask.tolist()
        elif kind == "any": mask.any(axis=-1)
    def reads(kinds):
        if with_reads:
            for k in kinds:
                try:
                    read(k)
                except Exception:
                    pass
    def write():
        m = mask
        w = q["write"]
        v = not bool(data[flat])
        if w == "self": m[i, j] = v
        elif w == "row": m[i][j] = v
        elif w == "all":
            b = m[...]; b[i, j] = v
        elif w == "ravel": m.ravel()[flat] = v
        elif w == "buffer": data[flat] = v
        elif w == "iand": m &= other
        elif w == "ixor": m ^= other
        elif w == "out": np.logical_or(m, other, out=m)
    reads(q["before"])
    write()
    reads(q["between"])
    obs = []
    for f in (lambda: [int(x) for x in a[mask]], lambda: [[int(x) for x in t] for t in mask.nonzero()], lambda: a.subset(mask).tolist(),
              lambda: np.where(mask, a, 0).tolist(), lambda: mask.tolist()):
        try:
            obs.append(f())
        except Exception:
            obs.append({"k": "refuse"})
    b = RaggedArray(np.arange(10, 10 + n), lens)
    try:
        b[mask] = -1
        obs.append(b.tolist())
    except Exception:
        obs.append({"k": "refuse"})
    return obs


def key(p):
    if "mk" in p or "pr" in p or "rs" in p or "rp" in p or "xd" in p or "own" in p:
        return engine.stable_hash(p)
    if "fl" in p:
        return engine.stable_hash(p)
    return engine.stable_hash([p["prog"], p["extra"]])


def nontrivial(p):
    if "fl" in p or "mk" in p or "pr" in p or "rs" in p or "rp" in p or "xd" in p or "own" in p:
        return True
    kinds = [s["s"] for s in p["prog"]]
    return "assign" in kinds and "select" in kinds


def distribution(ps):
    fl_all = list(ps)
    fl = [p for p in ps if "fl" in p]
    mk = [p for p in ps if "mk" in p]
    pr = [p for p in ps if "pr" in p]
    rs = [p for p in ps if "rs" in p]; rp = [p for p in ps if "rp" in p]
    ps = [p for p in ps if "fl" not in p and "mk" not in p and "pr" not in p and "rs" not in p and "rp" not in p and "xd" not in p and "own" not in p]
    return {"result_ownership_cases": sum(1 for p in fl_all if "own" in p), "cross_array_reduction_cases": sum(1 for p in fl_all if "xd" in p), "window_then_write_cases": len(rs), "repeat_after_allocations_cases": len(rp), "repeat_ops": gens.hist(p["rp"]["op"] for p in rp),
            "print_state_cases": len(pr), "print_cells": gens.hist(sum(p["pr"]["lens"]) for p in pr),
            "mask_alias_write_cases": len(mk), "mask_write_kinds": gens.hist(p["mk"]["write"] for p in mk),
            "float_alias_write_cases": len(fl), "float_alias_kinds": gens.hist(p["fl"]["alias"] for p in fl),
            "float_written_values": gens.hist(str(p["fl"]["val"]) for p in fl),
            "statements": gens.hist(s["s"] for p in ps for s in p["prog"]),
            "extra_read_kinds": gens.hist(k for p in ps for lst in p["extra"].values() for _, k in lst),
            "select_write_read_pattern": sum(1 for p in ps if [s["s"] for s in p["prog"]][:3] == ["new", "select", "assign"]),
            "program_length": gens.hist(min(len(p["prog"]), 16) for p in ps)}


def run_impl(p):
    if "rs" in p:
        def hs():
            plain = _run_slice(p["rs"], False)
            withreads = _run_slice(p["rs"], True)
            return {"k": "obs", "equal": {"k": "py", "v": plain == withreads},
                    "detail": {"k": "py", "v": None if plain == withreads else [plain, withreads]}}
        return guarded(hs)
    if "rp" in p:
        def hr():
            r = _run_repeat(p["rp"])
            return {"k": "obs", "equal": {"k": "py", "v": r[0]}, "detail": {"k": "py", "v": None if r[0] else r[1:]}}
        return guarded(hr)
    if "own" in p:
        def ho():
            r = _run_own(p["own"])
            return {"k": "obs", "equal": {"k": "py", "v": r[0]}, "detail": {"k": "py", "v": r[1]}}
        return guarded(ho)
    if "xd" in p:
        def hx():
            plain, want = _run_xd(p["xd"], False)
            withreads, _ = _run_xd(p["xd"], True)
            ok = plain == withreads and plain == want
            return {"k": "obs", "equal": {"k": "py", "v": ok}, "detail": {"k": "py", "v": None if ok else [plain, withreads, want]}}
        return guarded(hx)
    if "pr" in p:
        def hp():
            plain = _run_print(p["pr"], False)
            withreads = _run_print(p["pr"], True)
            return {"k": "obs", "equal": {"k": "py", "v": plain == withreads},
                    "detail": {"k": "py", "v": None if plain == withreads else [plain, withreads]}}
        return guarded(hp)
    if "mk" in p:
        def hm():
            plain = _run_mask(p["mk"], False)
            withreads = _run_mask(p["mk"], True)
            return {"k": "obs", "equal": {"k": "py", "v": plain == withreads},
                    "detail": {"k": "py", "v": None if plain == withreads else [plain, withreads]}}
        return guarded(hm)
    if "fl" in p:
        def h():
            import numpy as np
            with np.errstate(all="ignore"):
                plain = _run_float(p["fl"], False)
                withreads = _run_float(p["fl"], True)
            # NaN cells are spelled None: list equality is then plain equality
            return {"k": "obs", "equal": {"k": "py", "v": plain == withreads},
                    "detail": {"k": "py", "v": None if plain == withreads else [plain, withreads]}}
        return guarded(h)
    def g():
        extra = {int(k): [tuple(x) for x in v] for k, v in p["extra"].items()}
        plain = proggen.run_real(p["prog"], None, p.get("variant", 0))
        withreads = proggen.run_real(p["prog"], extra, p.get("variant", 0))
        return {"k": "obs", "plain": {"k": "trace", "v": plain}, "with_reads": {"k": "trace", "v": withreads},
                "equal": {"k": "py", "v": plain == withreads}}
    return guarded(g)


def oracle(p):
    if "rs" in p or "rp" in p or "xd" in p or "own" in p:
        return {"k": "obs", "equal": {"k": "py", "v": True}}
    if "pr" in p:
        return {"k": "obs", "equal": {"k": "py", "v": True}}
    if "mk" in p:
        return {"k": "obs", "equal": {"k": "py", "v": True}}
    if "fl" in p:
        return {"k": "obs", "equal": {"k": "py", "v": True}}
    ref = proggen.run_ref(p["prog"])
    return {"k": "obs", "plain": {"k": "trace", "v": ref}, "with_reads": {"k": "trace", "v": ref}, "equal": {"k": "py", "v": True}}


def _ins_prog(p):
    prog = list(p["prog"])
    st = {"s": p["ins_kind"], "x": p["ins_var"]}
    return prog[:p["ins_pos"]] + [st] + prog[p["ins_pos"]:]


def lean_request(p):
    if "fl" in p or "mk" in p or "pr" in p or "rs" in p or "rp" in p or "xd" in p or "own" in p:
        return None
    # the Lean model runs the history with ONE extra read statement inserted; its observation is dropped afterwards
    from props import c06
    return {"op": "Heap.run", "prog": c06.lean_prog(_ins_prog(p))}


def decode_lean(p, resp):
    from props import c06
    prog2 = _ins_prog(p)
    def conv(tr):
        obs = [c06._conv_obs(st, j) for st, j in zip(prog2, tr)]
        del obs[p["ins_pos"]]
        return {"k": "obs", "plain": {"k": "trace", "v": obs}, "with_reads": {"k": "trace", "v": obs}}
    return conv(resp["L"]), conv(resp["S"])


def _same_trace(a, b):
    va, vb = a["v"], b["v"]
    return len(va) == len(vb) and all(x is None or y is None or x == y for x, y in zip(va, vb))


def same(a, b):
    if engine.is_refuse(a) or engine.is_refuse(b):
        return engine.is_refuse(a) and engine.is_refuse(b)
    ks = (set(a) & set(b)) - {"k"}
    for k in ks:
        if k == "equal":
            if a[k]["v"] != b[k]["v"]:
                return False
        elif not _same_trace(a[k], b[k]):
            return False
    return True


def matches_finding(f, p, impl, expect):
    return False
