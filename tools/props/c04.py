"""C04 — element-wise numpy ufuncs act row by row, with column broadcasting."""
import random, warnings
import numpy as np
import engine, gens
from engine import canon, guarded, refuse

ID = "C04"
LEVEL = "proof"
LEVEL_TEXT = ("Lean 4 theorems for every ragged shape (empty rows / zero rows anywhere), every binary function f (no laws) and every "
              "element type: the model of ufunc(ra, x) / ufunc(x, ra) for x a scalar, an (n_rows,1) column on either side or a ragged "
              "array of identical row lengths yields rows zipWith/map f of the operand rows (same row lengths), and refuses ragged "
              "operands of different row lengths; the XOR-scatter + prefix-XOR column broadcast equals repeating entry i over row i "
              "for EVERY placement of empty rows (where several rows share start/end positions) over any XOR-like type of bit patterns. "
              "Result dtype and the numeric action of each ufunc are decided by the correspondence: the model routes cell identities, "
              "numpy itself evaluates 'the ufunc applied to row i' on the operand dtypes, compared bit for bit over shapes x operand "
              "kinds x sides x ufuncs x dtype pairs.")
LEVEL_NOTE = ("Trusted: Lean kernel (+ standard axioms); hand model of __array_ufunc__/broadcast_values (tied by correspondence); numpy "
              "applies a ufunc's inner loop position-independently on a flat buffer; numpy's promotion rules (the finite dtype x dtype x "
              "operand-kind table is enumerated by the correspondence, completely in the thorough tier).")
TECHNIQUE = "Lean 4 proof of row-wise action and of the XOR broadcast for all shapes; numpy-evaluated correspondence for dtypes"
DESIGN_REF = "7"
LEAN_MODULES = ["NpsVerif.Props.C04"]
KERNELS = ()
RULE = ("cases = ragged shape (exhaustive <=3x3 + random) x operand kind (unary, scalar python/numpy, (n_rows,1) column, ragged same "
        "shape, ragged other shape, wrong-length column) x side x ufunc (arithmetic, comparison, bitwise, logical) x dtype pair; "
        "distinct = distinct (lengths, kind, side, ufunc, dtypes); non-trivial = array has >= 1 cell and the call is accepted")
EXHAUSTIVE = {"quick": False, "thorough": False}
CORRESPONDENCE_ONLY = ["numpy result dtype per (ufunc, dtype pair, operand kind)", "numeric action of each ufunc"]
ASSUMPTIONS = ["ufunc inner loops are position-independent"]

ARITH = ["add", "subtract", "multiply", "maximum", "minimum", "floor_divide", "true_divide"]
CMP = ["less", "less_equal", "equal", "not_equal", "greater"]
BITW = ["bitwise_and", "bitwise_or", "bitwise_xor"]
LOGI = ["logical_and", "logical_or", "logical_xor"]
UNARY = ["negative", "abs", "invert", "sqrt", "logical_not", "square"]
ALLBIN = ARITH + CMP + BITW + LOGI


def _ufuncs_for(dta, dtb):
    ka, kb = np.dtype(dta).kind, np.dtype(dtb).kind
    out = list(ARITH + CMP + LOGI)
    if ka in "biu" and kb in "biu":
        out += BITW
    return out


def cases(rng, tier):
    out = []
    shapes = gens.shapes_exhaustive(3, 3) if tier == "quick" else gens.shapes_exhaustive(4, 3)
    shapes = shapes + [gens.shape_random(rng, 14, 8) for _ in range(150 if tier == "quick" else 2000)]
    dts = gens.DTYPES
    pairs = [(a, b) for a in dts for b in dts]
    for lens in shapes:
        n = len(lens)
        kinds = ["unary", "scalar", "npscalar", "column", "ragged", "ragged_bad", "column_bad"]
        reps = 1 if tier == "quick" else 3
        for kind in kinds:
            for _ in range(reps):
                dta, dtb = rng.choice(pairs)
                side = rng.choice(["left", "right"])
                uf = rng.choice(UNARY) if kind == "unary" else rng.choice(_ufuncs_for(dta, dtb))
                p = {"lens": lens, "kind": kind, "side": side, "uf": uf, "dta": dta, "dtb": dtb, "vseed": rng.randint(0, 999),
                     # the ragged operand(s) are sometimes the RESULT of an earlier, value-preserving operation (a ufunc, a selection
                     # of all rows, a same-dtype astype): a derived array must behave - and refuse - like a freshly built one
                     "derived": rng.choice([None, None, "ufunc", "select", "astype", "reduced", "rev2", "mask_all", "list_all", "concat0"]),
                     # operand values: small, or rare (NaN, infinities, -0.0, 1e16 next to 1.0, dtype extremes) with repeats
                     "vmode": rng.choice(["rare", "rare", "rare", "cancel", "small", "small", "small", "small", "small", "small"])}
                if kind == "ragged_bad":
                    if n == 0:
                        continue
                    other = list(lens); j = rng.randrange(n); other[j] += 1
                    if n > 1 and other[(j + 1) % n] > 0 and rng.random() < 0.7:
                        other[(j + 1) % n] -= 1
                    if rng.random() < 0.25:
                        # an operand with a DIFFERENT NUMBER OF ROWS (one row against several, no row against one), rows empty or not
                        other = rng.choice([[0], [0, 0, 0], [], [lens[0]], list(lens) + [0], list(lens)[:-1]])
                        if other == list(lens):
                            other = list(lens) + [0]
                    elif rng.random() < 0.25:
                        # an operand with ONE cell in all (numpy would broadcast it): same row count, all rows but one empty
                        one = [0] * n; one[rng.choice([n - 1, n - 1, rng.randrange(n)])] = 1
                        if one != list(lens):
                            other = one
                    p["other"] = other
                if kind == "column_bad":
                    p["ncol"] = n + rng.choice([1, 2]) if n != 0 else 2
                    if p["ncol"] == 1:
                        p["ncol"] = 3
                if kind in ("scalar",):
                    p["s"] = rng.choice([0, 1, 2, 3, 255, -1, 1.5, True])
                out.append(p)
                if kind in ("unary", "scalar", "npscalar", "column", "ragged") and rng.random() < 0.3:
                    # the function form with numpy's own keyword arguments (result type, casting rule): numpy applied per row with
                    # the same keywords is the reference -- a combination numpy refuses must be refused
                    kw = {}
                    if rng.random() < 0.75:
                        kw["dtype"] = rng.choice(["float64", "int64", "float32", "int16", "uint8", "bool", dta])
                    if not kw or rng.random() < 0.4:
                        kw["casting"] = rng.choice(["no", "equiv", "safe", "same_kind", "unsafe"])
                    out.append(dict(p, kw=kw, vseed=rng.randint(0, 999)))
                if kind in ("scalar", "npscalar", "column", "ragged", "ragged_bad") and rng.random() < 0.35:
                    # the in-place form ra op= x (numpy: ufunc(ra, x, out=ra)): the cells change, the object stays, a result that
                    # cannot be cast back into the array's dtype is refused and nothing changes
                    q = dict(p, side="right", inplace=True, derived=None, vseed=rng.randint(0, 999))
                    out.append(q)
    # comparison ufuncs / operators on two ragged arrays with the SAME NUMBER OF ROWS but other row lengths: refused like every other ufunc
    for _ in range(80 if tier == "quick" else 800):
        lens = [rng.randint(0, 4) for _ in range(rng.randint(1, 5))]
        other = list(lens); j = rng.randrange(len(lens)); other[j] += rng.choice([1, 2])
        if len(lens) > 1 and rng.random() < 0.6:
            j2 = (j + 1) % len(lens)
            other[j2] = max(0, other[j2] - 1) if other[j2] else other[j2] + 1
        if other == lens:
            other[j] += 1
        dt = rng.choice(["int64", "float64", "int8", "bool"])
        out.append({"lens": lens, "kind": "ragged_bad", "side": rng.choice(["left", "right"]), "uf": rng.choice(["equal", "not_equal", "equal", "not_equal", "less", "greater_equal"]),
                    "dta": dt, "dtb": dt, "vseed": rng.randint(0, 999), "derived": None, "vmode": "small", "other": other})
    # ONE row (the column has one entry, which numpy-style broadcasting treats specially), operands of the same dtype (the result
    # could be written into an operand): nothing but the result may change
    for _ in range(60 if tier == "quick" else 600):
        dt = rng.choice(["int64", "float64", "int8", "bool", "uint16", "float32"])
        out.append({"lens": [rng.choice([1, 1, 2, 3])], "kind": rng.choice(["column", "column", "ragged", "npscalar"]), "side": rng.choice(["left", "right"]),
                    "uf": rng.choice(["add", "multiply", "maximum", "minimum", "logical_or", "subtract"]), "dta": dt, "dtb": dt,
                    "vseed": rng.randint(0, 999) * 5, "derived": None, "vmode": "small"})
    # float operands made of +0.0 and -0.0 only (equal values, different signs) under sign-sensitive ufuncs
    for _ in range(80 if tier == "quick" else 800):
        lens = [rng.randint(0, 3) for _ in range(rng.randint(2, 5))]
        out.append({"lens": lens, "kind": rng.choice(["column", "column", "ragged"]), "side": rng.choice(["left", "right"]),
                    "uf": rng.choice(["true_divide", "copysign", "multiply", "arctan2", "minimum", "add"]), "dta": rng.choice(["float64", "float32", "int64"]),
                    "dtb": rng.choice(["float64", "float32"]), "vseed": rng.randint(0, 999), "derived": rng.choice([None, None, "select"]), "vmode": "zeros"})
    # DERIVED ragged operands (results of selections / ufuncs / conversions, whose shape objects were built by the library) against
    # float columns of wildly different magnitudes, on shapes with and without empty rows: a broadcast that is exact for a fresh
    # array must be exact for a derived one
    for _ in range(120 if tier == "quick" else 1500):
        lens = [rng.randint(0 if rng.random() < 0.3 else 1, 4) for _ in range(rng.randint(2, 6))]
        out.append({"lens": lens, "kind": "column", "side": rng.choice(["left", "right"]), "uf": rng.choice(["add", "subtract", "multiply", "maximum", "less", "equal"]),
                    "dta": rng.choice(["float64", "int64", "float32", "int8", "bool"]), "dtb": rng.choice(["float64", "float64", "float32"]),
                    "vseed": rng.randint(0, 999), "derived": rng.choice(["select", "select", "ufunc", "astype", "reduced"]), "vmode": "rare"})
    if tier == "thorough":
        # the complete dtype x dtype x operand-kind table on one shape with empty rows
        for dta, dtb in pairs:
            for kind in ("npscalar", "column", "ragged"):
                for uf in _ufuncs_for(dta, dtb):
                    out.append({"lens": [2, 0, 3, 0], "kind": kind, "side": rng.choice(["left", "right"]), "uf": uf, "dta": dta, "dtb": dtb, "vseed": 5})
    return out


def key(p):
    return engine.stable_hash([p["lens"], p["kind"], p["side"], p["uf"], p["dta"], p["dtb"], p.get("other"), p.get("ncol"), p.get("s"), p.get("derived"), p.get("vmode"), p.get("inplace"), p.get("kw")])


def nontrivial(p):
    return sum(p["lens"]) > 0


def distribution(ps):
    d = gens.shape_stats([p["lens"] for p in ps])
    d["kinds"] = gens.hist(p["kind"] + ":" + p["side"] for p in ps)
    d["ufuncs"] = gens.hist(p["uf"] for p in ps)
    d["operand_derivation"] = gens.hist(p.get("derived") or "fresh" for p in ps)
    d["dtype_pairs_distinct"] = len({(p["dta"], p["dtb"]) for p in ps})
    return d


def _operands(p):
    rnd = random.Random(p["vseed"])
    n = sum(p["lens"])
    mode = p.get("vmode", "small")
    a = gens.cell_values(p["dta"], n, rnd, mode=mode)
    k = p["kind"]
    if k == "scalar":
        other = p["s"]
    elif k == "npscalar":
        other = gens.cell_values(p["dtb"], 1, rnd, mode="small")[0]
        if np.dtype(p["dtb"]).kind != "b":
            other = np.dtype(p["dtb"]).type(2)
    elif k == "column":
        other = gens.cell_values(p["dtb"], len(p["lens"]), rnd, mode=mode)
    elif k == "column_bad":
        other = gens.cell_values(p["dtb"], p["ncol"], rnd, mode="small")
    elif k == "ragged":
        other = gens.cell_values(p["dtb"], n, rnd, mode=mode)
    elif k == "ragged_bad":
        other = gens.cell_values(p["dtb"], sum(p["other"]), rnd, mode="small")
    else:
        other = None
    return a, other


def _derive(ra, how):
    if how == "ufunc":
        return np.maximum(ra, ra)
    if how == "select":
        return ra[:]
    if how == "astype":
        return ra.astype(ra.dtype)
    if how == "reduced":        # the same array after read-only reductions: nothing may have changed
        with np.errstate(all="ignore"), warnings.catch_warnings():
            warnings.simplefilter("ignore")
            ra.sum(axis=-1); ra.any(axis=-1); ra.mean(axis=-1); ra.all(axis=-1)
        return ra
    if how in ("rev2", "mask_all", "list_all", "concat0"):
        return gens.derive_ra(ra, how)
    return ra


def run_impl(p):
    from npstructures import RaggedArray
    def f():
        a, other = _operands(p)
        ra = _derive(RaggedArray(a.copy(), list(p["lens"])), p.get("derived"))
        uf = getattr(np, p["uf"])
        k = p["kind"]
        with np.errstate(all="ignore"), warnings.catch_warnings():
            warnings.simplefilter("ignore")
            kw = p.get("kw") or {}
            if k == "unary":
                res = uf(ra, **kw); x = None
            else:
                if k in ("column", "column_bad"):
                    x = other.reshape(-1, 1).copy()
                    form = p["vseed"] % 5      # the column as an (n, 1) array, a nested Python list, a strided view, a read-only array
                    if form == 1 and not p.get("inplace") and p["dtb"] in ("int64", "float64", "bool") and len(p["lens"]) > 0:
                        x = x.tolist()
                    elif form == 2:
                        x = np.repeat(x, 2, axis=0)[::2]
                    elif form == 3:
                        x.setflags(write=False)
                elif k == "ragged":
                    x = _derive(RaggedArray(other.copy(), list(p["lens"])), p.get("derived"))
                elif k == "ragged_bad":
                    x = _derive(RaggedArray(other.copy(), list(p["other"])), p.get("derived"))
                else:
                    x = other
                    if k == "npscalar" and p["vseed"] % 3 == 0:
                        x = np.array(other)          # the same typed scalar as a 0-d array
                if p.get("inplace"):
                    try:
                        res = uf(ra, x, out=ra)
                    except Exception:
                        if not np.array_equal(ra.ravel().view(np.uint8), a.view(np.uint8)):
                            raise engine.Inconsistent("a refused in-place operation changed the array")
                        raise
                    if res is not ra:
                        raise engine.Inconsistent("the in-place form returned another object")
                else:
                    res = uf(ra, x, **kw) if p["side"] == "right" else uf(x, ra, **kw)
        if not isinstance(res, RaggedArray):
            # an answer that is not a ragged array (a bare bool, NotImplemented, ...) is an answer, not a refusal
            return {"k": "obs", "result": {"k": "other", "v": "not a RaggedArray: " + type(res).__name__ + " " + repr(res)[:40]}, "lengths": canon([]), "operands_unmodified": canon(True)}
        o = {"k": "obs", "result": canon(res), "lengths": canon([int(v) for v in res.lengths])}
        same_a = bool(p.get("inplace")) or bool(np.array_equal(ra.ravel().view(np.uint8), a.view(np.uint8)))
        same_x = True
        if isinstance(x, np.ndarray) and x.ndim == 0:
            same_x = bool(x.tobytes() == np.asarray(other).tobytes())
        elif isinstance(x, np.ndarray):
            same_x = bool(np.array_equal(x.ravel().view(np.uint8), other.view(np.uint8)))
        elif isinstance(x, RaggedArray):
            same_x = bool(np.array_equal(x.ravel().view(np.uint8), other.view(np.uint8)))
        o["operands_unmodified"] = canon(same_a and same_x)
        return o
    return guarded(f)


def _rows(flat, lens):
    out, k = [], 0
    for l in lens:
        out.append(flat[k:k + l]); k += l
    return out


def _expected_rows(p, pairs_rows=None):
    """numpy applied to row i and the scalar / i-th column entry / other row i"""
    a, other = _operands(p)
    uf = getattr(np, p["uf"])
    k = p["kind"]
    rows = _rows(a, p["lens"])
    n = len(rows)
    res = []
    kw = p.get("kw") or {}
    with np.errstate(all="ignore"), warnings.catch_warnings():
        warnings.simplefilter("ignore")
        if k == "unary":
            res = [uf(r, **kw) for r in rows]; probe = uf(a[:0], **kw)
        elif k in ("scalar", "npscalar"):
            res = [uf(r, other, **kw) if p["side"] == "right" else uf(other, r, **kw) for r in rows]
            probe = uf(a[:0], other, **kw) if p["side"] == "right" else uf(other, a[:0], **kw)
        elif k == "column":
            res = [uf(r, other[i], **kw) if p["side"] == "right" else uf(other[i], r, **kw) for i, r in enumerate(rows)]
            probe = uf(a[:0], other[:0], **kw) if p["side"] == "right" else uf(other[:0], a[:0], **kw)
        elif k == "ragged":
            orows = _rows(other, p["lens"])
            res = [uf(r, o, **kw) if p["side"] == "right" else uf(o, r, **kw) for r, o in zip(rows, orows)]
            probe = uf(a[:0], other[:0], **kw) if p["side"] == "right" else uf(other[:0], a[:0], **kw)
        else:
            return None, None
    dt = probe.dtype
    return [np.asarray(r, dtype=dt) for r in res], dt


def oracle(p):
    k = p["kind"]
    try:
        if k in ("ragged_bad", "column_bad"):
            return refuse()
        rows, dt = _expected_rows(p)
        if p.get("inplace"):
            # numpy's own in-place rule, per row: ufunc(row, operand, out=row) -- refused when the result cannot be cast back
            a, other = _operands(p)
            uf = getattr(np, p["uf"])
            arows = [r.copy() for r in _rows(a, p["lens"])]
            orows = _rows(other, p["lens"]) if k == "ragged" else None
            with np.errstate(all="ignore"), warnings.catch_warnings():
                warnings.simplefilter("ignore")
                probe = a[:0].copy()
                uf(probe, other[:0] if k in ("column", "ragged") else other, out=probe)      # raises when the casting is not allowed
                for i, r in enumerate(arows):
                    uf(r, other[i] if k == "column" else orows[i] if k == "ragged" else other, out=r)
            rows, dt = arows, a.dtype
    except Exception:
        return refuse()
    return {"k": "obs", "result": {"k": "ra", "dt": str(dt), "v": [engine._nest(r.tolist()) for r in rows]},
            "lengths": canon(list(p["lens"])), "operands_unmodified": canon(True)}


def lean_request(p):
    if p.get("inplace") or p.get("kw"):
        return None          # the Lean model has no object identity / casting rule: implementation vs numpy only
    k = p["kind"]
    rows = gens.rows_of_ids(p["lens"])
    n = len(p["lens"])
    if k == "unary":
        return {"op": "C04.ufunc", "rows": rows, "kind": "unary", "side": "right"}
    if k in ("scalar", "npscalar"):
        return {"op": "C04.ufunc", "rows": rows, "kind": "scalar", "side": p["side"], "s": 5000}
    if k in ("column", "column_bad"):
        m = n if k == "column" else p["ncol"]
        return {"op": "C04.ufunc", "rows": rows, "kind": "column", "side": p["side"], "col": [1000 + i for i in range(m)]}
    if p["side"] == "left" and k in ("ragged", "ragged_bad"):
        pass
    other = p["lens"] if k == "ragged" else p["other"]
    orows, c = [], 2000
    for l in other:
        orows.append(list(range(c, c + l))); c += l
    return {"op": "C04.ufunc", "rows": rows, "kind": "ragged", "side": "right", "other": orows}


def decode_lean(p, resp):
    a, other = _operands(p)
    uf = getattr(np, p["uf"])
    k = p["kind"]
    def val(i):
        if i >= 5000:
            return other
        if i >= 2000:
            return other[i - 2000]
        if i >= 1000:
            return other[i - 1000]
        return a[i]
    def conv(j):
        if isinstance(j, dict) and j.get("refuse"):
            return refuse()
        try:
            exp_rows, dt = _expected_rows(p)
        except Exception:
            return refuse()
        rows = []
        with np.errstate(all="ignore"), warnings.catch_warnings():
            warnings.simplefilter("ignore")
            for r in j:
                if k == "unary":
                    rows.append(np.asarray(uf(np.array([val(c[0]) for c in r], dtype=a.dtype)), dtype=dt))
                else:
                    swap = (k in ("ragged",) and p["side"] == "left")
                    L = [val(c[0]) for c in r]; R = [val(c[1]) for c in r]
                    la = np.array(L, dtype=a.dtype if (p["side"] == "right" or k == "ragged") else np.asarray(other).dtype)
                    rb = np.array(R, dtype=np.asarray(other).dtype if (p["side"] == "right" or k == "ragged") else a.dtype)
                    if k == "scalar":
                        # python scalar: weak promotion -- apply with the scalar itself
                        res = uf(la, other) if p["side"] == "right" else uf(other, rb)
                    else:
                        res = uf(rb, la) if swap else uf(la, rb)
                    rows.append(np.asarray(res, dtype=dt))
        return {"k": "obs", "result": {"k": "ra", "dt": str(dt), "v": [engine._nest(r.tolist()) for r in rows]},
                "lengths": canon([len(r) for r in j])}
    return conv(resp["L"]), conv(resp["S"])


def same(a, b):
    if isinstance(a, dict) and isinstance(b, dict) and a.get("k") == "obs" and b.get("k") == "obs":
        ks = (set(a) & set(b)) - {"k"}
        return bool(ks) and all(engine.same(a[k], b[k]) for k in ks)
    return engine.same(a, b)


def matches_finding(f, p, impl, expect):
    return False
