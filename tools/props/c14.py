"""C14 — run-length encoding is lossless and canonical."""
import numpy as np
import engine, gens, rlgen
from engine import canon, guarded, refuse

ID = "C14"
LEVEL = "proof"
LEVEL_TEXT = ("Lean 4 theorems for every non-empty list over every element type with ANY neighbour-inequality relation (so NaN, "
              "-0.0 and payloads need no special case): decode(from_array a) = a; the encoder's output satisfies the constructor's "
              "invariants (events start at 0, strictly increase, end at the length) and has no two adjacent equal values when the "
              "relation is !=; the XOR-scatter + prefix-XOR decoder equals decode for every valid run-length array over any "
              "XOR-like type of bit patterns; length/size agree. Model tied to runlengtharray.py by correspondence on all arrays "
              "over a 3-letter alphabet up to length 7 per dtype (letters mapped to dtype extremes, NaN, -0.0) + random long-run arrays.")
LEVEL_NOTE = ("Trusted: Lean kernel (+ standard axioms); the hand-written model of from_array/to_array (tied by correspondence); "
              "numpy .view(uintN) is a lossless reinterpretation of a contiguous array; canonical form of arrays produced by slicing / "
              "arithmetic / concatenation is checked on the implementation's results in C15/C16 and proved there for the model.")
TECHNIQUE = "Lean 4 proof of decode∘encode = id and XOR decoder = decode; model/implementation correspondence"
DESIGN_REF = "6.14"
LEAN_MODULES = ["NpsVerif.Props.C14"]
KERNELS = ()
RULE = ("cases = 1-D array (all arrays over a 3-letter alphabet up to length 5 quick / 7 thorough, plus random arrays with long runs "
        "up to length 60) x dtype (letters mapped to the dtype's extremes, NaN, -0.0); distinct = distinct (classes, dtype); "
        "non-trivial = length >= 2")
EXHAUSTIVE = {"quick": False, "thorough": False}
CORRESPONDENCE_ONLY = ["dtype tag", "np.asarray conversion"]
ASSUMPTIONS = ["numpy .view() between same-width dtypes preserves bit patterns"]


def cases(rng, tier):
    out = []
    arrs = rlgen.arrays_exhaustive(5 if tier == "quick" else 7)
    for a in arrs:
        dts = gens.pick_dtypes(rng, "quick", 2) if tier == "quick" else gens.DTYPES
        for dt in dts:
            out.append({"a": a, "dtype": dt})
    for _ in range(300 if tier == "quick" else 3000):
        out.append({"a": rlgen.array_random(rng, 60), "dtype": rng.choice(gens.DTYPES)})
    return out


def key(p):
    return (tuple(p["a"]), p["dtype"])


def nontrivial(p):
    return len(p["a"]) >= 2


def distribution(ps):
    d = rlgen.rl_distribution([p["a"] for p in ps])
    d["dtypes"] = gens.hist(p["dtype"] for p in ps)
    return d


def run_impl(p):
    from npstructures import RunLengthArray
    def f():
        arr = rlgen.to_values(p["a"], p["dtype"])
        before = arr.copy()
        r = RunLengthArray.from_array(arr)
        o = {"k": "obs"}
        o["to_array"] = guarded(lambda: r.to_array())
        o["asarray"] = guarded(lambda: np.asarray(r))
        o["len"] = guarded(lambda: int(len(r)))
        o["size"] = guarded(lambda: int(r.size))
        o["shape"] = guarded(lambda: [int(x) for x in r.shape])
        o["dtype"] = guarded(lambda: str(r.dtype))
        o["starts"] = guarded(lambda: [int(x) for x in r.starts])
        o["ends"] = guarded(lambda: [int(x) for x in r.ends])
        o["values"] = guarded(lambda: np.asarray(r.values))
        o["canonical"] = guarded(lambda: rlgen.canonical_info(r, joined=True))
        o["input_unmodified"] = canon(bool(np.array_equal(arr.view(np.uint8), before.view(np.uint8))))
        return o
    return guarded(f)


def oracle(p):
    arr = rlgen.to_values(p["a"], p["dtype"])
    n = len(arr)
    with np.errstate(all="ignore"):
        ne = arr[1:] != arr[:-1]
    bounds = [0] + [i + 1 for i in range(n - 1) if ne[i]] + [n]
    o = {"k": "obs"}
    o["to_array"] = canon(arr); o["asarray"] = canon(arr)
    o["len"] = canon(n); o["size"] = canon(n); o["shape"] = canon([n])
    o["dtype"] = {"k": "other", "v": repr(str(arr.dtype))}
    o["starts"] = canon(bounds[:-1]); o["ends"] = canon(bounds[1:])
    o["values"] = canon(arr[bounds[:-1]])
    o["canonical"] = canon(True)
    o["input_unmodified"] = canon(True)
    return o


def _nan_class(p):
    if np.dtype(p["dtype"]).kind != "f":
        return None
    L = rlgen.letters(p["dtype"])
    for i, v in enumerate(L):
        if v != v:
            return i
    return None


def lean_request(p):
    return {"op": "RL.encode", "a": rlgen.lean_classes(p["a"], p["dtype"]), "nan": _nan_class(p)}


def decode_lean(p, resp):
    L = rlgen.letters(p["dtype"])
    def conv(j):
        o = {"k": "obs"}
        o["to_array"] = canon(np.array([L[c] for c in j["to_array"]], dtype=p["dtype"]))
        o["len"] = canon(j["len"])
        o["starts"] = canon(j["events"][:-1]); o["ends"] = canon(j["events"][1:])
        o["values"] = canon(np.array([L[c] for c in j["values"]], dtype=p["dtype"]))
        o["canonical"] = canon(bool(j["valid"]))
        return o
    return conv(resp["L"]), conv(resp["S"])


def same(a, b):
    if isinstance(a, dict) and isinstance(b, dict) and a.get("k") == "obs" and b.get("k") == "obs":
        ks = (set(a) & set(b)) - {"k"}
        return bool(ks) and all(engine.same(a[k], b[k]) for k in ks)
    return engine.same(a, b)


def matches_finding(f, p, impl, expect):
    return False
