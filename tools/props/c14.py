"""C14 — run-length encoding is lossless and canonical."""
import warnings
import numpy as np
import engine, gens, rlgen
from engine import canon, guarded, refuse

ID = "C14"
LEVEL = "proof"
LEVEL_TEXT = ("Lean 4 theorems for every non-empty list over every element type with ANY neighbour-inequality relation (so NaN, "
              "-0.0 and payloads need no special case): decode(from_array a) = a; the encoder's output satisfies the constructor's "
              "invariants (events start at 0, strictly increase, end at the length) and has no two adjacent equal values when the "
              "relation is !=; the XOR-scatter + prefix-XOR decoder equals decode for every valid run-length array over any "
              "XOR-like type of bit patterns; length/size agree. Model tied to runlengtharray.py by correspondence on all arrays "
              "over a 3-letter alphabet up to length 7 per dtype (letters mapped to dtype extremes, NaN, -0.0) + random long-run arrays.")
LEVEL_NOTE = ("Trusted: Lean kernel (+ standard axioms); the hand-written model of from_array/to_array (tied by correspondence); "
              "numpy .view(uintN) is a lossless reinterpretation of a contiguous array; canonical form of arrays produced by slicing / "
              "arithmetic / concatenation is checked on the implementation's results in C15/C16 and proved there for the model.")
TECHNIQUE = "Lean 4 proof of decode∘encode = id and XOR decoder = decode; model/implementation correspondence"
DESIGN_REF = "7"
LEAN_MODULES = ["NpsVerif.Props.C14", "NpsVerif.Props.C14B"]
KERNELS = ()
RULE = ("cases = 1-D array (all arrays over a 3-letter alphabet up to length 5 quick / 7 thorough, plus random arrays with long runs "
        "up to length 60) x dtype (letters mapped to the dtype's extremes, NaN, -0.0, or to NEIGHBOURING values such as 2**63 / "
        "2**63+1, 1.0 / 1.0+eps); plus derived arrays (stepped slices, ufuncs of two run-length operands, concatenations) judged for "
        "canonical form; distinct = distinct (classes, dtype, letters, derivation); "
        "derived slices include steps of 2**31 .. 2**63-1; every array is also converted through numpy with ANOTHER element type (np.asarray(r, dtype=...)) and compared with the converted cells; non-trivial = length >= 2")
EXHAUSTIVE = {"quick": False, "thorough": False}
CORRESPONDENCE_ONLY = ["dtype tag", "np.asarray conversion"]
ASSUMPTIONS = ["numpy .view() between same-width dtypes preserves bit patterns"]


def _mode(p):
    if p.get("zeros"):
        return "zeros"
    return "near" if p.get("near") else False


def cases(rng, tier):
    out = []
    arrs = rlgen.arrays_exhaustive(5 if tier == "quick" else 7)
    for a in arrs:
        dts = gens.pick_dtypes(rng, "quick", 2) if tier == "quick" else gens.DTYPES
        for dt in dts:
            out.append({"a": a, "dtype": dt})
    # letters mapped to NEIGHBOURING values (2**63 / 2**63+1, 1.0 / 1.0+eps, max-1 / max): distinct cells that any detour
    # through another representation would merge
    for a in rlgen.arrays_exhaustive(3):
        for dt in gens.DTYPES:
            out.append({"a": a, "dtype": dt, "near": True})
    for _ in range(300 if tier == "quick" else 3000):
        out.append({"a": rlgen.array_random(rng, 60), "dtype": rng.choice(gens.DTYPES), "near": rng.random() < 0.3})
    # element types beyond the usual list: half precision, the widest unsigned / narrowest signed types once more
    for a in rlgen.arrays_exhaustive(4):
        out.append({"a": a, "dtype": "float16", "near": rng.random() < 0.3})
        if rng.random() < 0.3:
            out.append({"a": a, "dtype": "float16", "zeros": True})
    # LONG arrays made of a few long runs, with lengths around 2**8 and 2**16 and runs that cross / end at those positions
    # (block-wise or narrow-integer encoders show there); too long for the Lean driver: implementation vs oracle only
    for L in ([255, 256, 257, 65535, 65536, 65537, 70000, 131072, 131073] if tier == "quick" else
              [255, 256, 257, 511, 65535, 65536, 65537, 70000, 131071, 131072, 131073, 196609, 262145]):
        for _ in range(2 if tier == "quick" else 4):
            cuts = sorted({c for c in (rng.choice([1, 2, 250, 255, 256, 65530, 65535, 65536, 65537, 65600, 131072, L - 1, rng.randint(1, L)])
                                        for _ in range(rng.randint(0, 4))) if 0 < c < L})
            runs, prev, cls = [], 0, rng.randrange(3)
            for c in cuts + [L]:
                runs.append([cls, c - prev]); prev = c
                cls = (cls + rng.choice([1, 2])) % 3
            a = [c for c, n in runs for _ in range(n)]
            out.append({"a": a, "dtype": rng.choice(["int8", "int64", "uint16", "float64", "bool", "int16"]), "long": True})
            if rng.random() < 0.5:
                out.append({"a": a, "dtype": "int64", "long": True, "derived": {"t": "slice", "s": [None, None, rng.choice([2, -2, 3, 257, -1])]}})
    # +0.0 next to -0.0: equal values (one run), different bit patterns
    for a in rlgen.arrays_exhaustive(4):
        out.append({"a": a, "dtype": rng.choice(["float32", "float64"]), "zeros": True})
    # canonical form of DERIVED run-length arrays (stepped slices, ufuncs of two run-length operands, concatenation);
    # what they decode to is C15 / C16, here only "no empty run" and (where promised) "no equal neighbours" are judged
    for a in rlgen.arrays_exhaustive(4 if tier == "quick" else 5, min_len=2):
        n = len(a)
        for k in (2, -2, 3, -1):
            out.append({"a": a, "dtype": "int64", "derived": {"t": "slice", "s": [None, None, k]}})
        if len(out) % 7 == 0:
            # a step far beyond the length, up to the largest a slice can carry: one cell, in canonical form
            out.append({"a": a, "dtype": "int64", "derived": {"t": "slice", "s": [None, None, rng.choice([2 ** 31, -(2 ** 31) - 1, 2 ** 63 - 1, -(2 ** 63 - 1), 2 ** 62 + 1])]}})
        out.append({"a": a, "dtype": "int64", "derived": {"t": "binop", "b": [rng.randrange(3) for _ in a], "f": rng.choice(["add", "maximum", "multiply", "equal"])}})
        out.append({"a": a, "dtype": "int64", "derived": {"t": "concat", "b": [a[-1]] + [rng.randrange(3) for _ in range(rng.randint(0, 3))], "extra": rng.choice([0, 0, 1, 2, 3])}})
        # float operands with the SAME run boundaries whose sum is NaN in some runs (inf + -inf) and a number in others
        out.append({"a": a, "dtype": rng.choice(["float64", "float32"]), "derived": {"t": "binop", "b": [1 if c == 0 else 0 if c == 1 else 2 for c in a], "f": rng.choice(["add", "add", "multiply", "maximum"])}})
        # a stepped / reversed slice OF A DERIVED array (a scalar ufunc or a concatenation keeps its operand's run boundaries, so the
        # source of the slice already holds equal neighbours): the slice is promised in joined form all the same
        out.append({"a": a, "dtype": "int64", "derived": {"t": "chain", "pre": rng.choice(["halve", "zero", "gt", "concat"]), "s": [None, None, rng.choice([2, -1, -2, 3])]}})
        # a ufunc of two operands DERIVED FROM THE SAME array (they share their run boundaries): (x > 0) & (x < 2), x - x, ...
        out.append({"a": a, "dtype": "int64", "derived": {"t": "same", "f": rng.choice(["and_cmp", "sub_self", "mul_shift", "max_neg"])}})
    for _ in range(300 if tier == "quick" else 3000):
        a = rlgen.array_random(rng, 40)
        n = len(a)
        t = rng.choice(["slice", "slice", "binop", "concat"])
        if t == "slice":
            x, y, k = gens.slice_random(rng, n, big=True)
            d = {"t": "slice", "s": [x, y, k]}
        elif t == "binop":
            d = {"t": "binop", "b": (rlgen.array_random(rng, n) * n)[:n], "f": rng.choice(["add", "maximum", "multiply", "equal", "bitwise_and"])}
        else:
            d = {"t": "concat", "b": rlgen.array_random(rng, 10), "extra": rng.choice([0, 1, 2, 3])}
        dtd = rng.choice(["int64", "int32", "uint8", "bool", "float64", "float32"])
        if d.get("f") == "bitwise_and" and dtd.startswith("float"):
            d["f"] = "subtract"         # inf - inf, (-inf) - (-inf): NaN runs next to each other
        out.append({"a": a, "dtype": dtd, "derived": d})
    return out


def key(p):
    if p.get("long"):
        return engine.stable_hash(p)
    return (tuple(p["a"]), p["dtype"], bool(p.get("near")), bool(p.get("zeros")), engine.stable_hash(p.get("derived")))


def nontrivial(p):
    return len(p["a"]) >= 2


def distribution(ps):
    d = rlgen.rl_distribution([p["a"] for p in ps])
    d["dtypes"] = gens.hist(p["dtype"] for p in ps)
    d["neighbouring_value_letters"] = sum(1 for p in ps if p.get("near"))
    d["derived_arrays"] = gens.hist(p["derived"]["t"] for p in ps if "derived" in p)
    return d


def _dmode(p):
    if p["dtype"] == "bool":
        return False
    return "inf" if p["dtype"] in ("float32", "float64", "float16") else "small"


def _same_source(f, x):
    """a binary ufunc of two arrays derived from the same array x (works on a RunLengthArray and on an ndarray alike)"""
    if f == "and_cmp":
        return (x > 0) & (x < 2)
    if f == "sub_self":
        return x - x
    if f == "mul_shift":
        return (x + 1) * (x // 2)
    return np.maximum(-x, x - 2)


def _chain_pre(pre, x, np_):
    """the same value-level derivation on a RunLengthArray or on the dense array"""
    if pre == "halve":
        return x // 2
    if pre == "zero":
        return x * 0
    if pre == "gt":
        return x > 1
    return np_.concatenate([x, x])


def _derived(p, arr):
    """(numpy result on the dense array, is the joined form promised?)"""
    d = p["derived"]
    if d["t"] == "slice":
        sl = slice(*d["s"])
        return arr[sl], d["s"][2] not in (None, 1)
    if d["t"] == "same":
        return _same_source(d["f"], arr), True
    if d["t"] == "chain":
        return _chain_pre(d["pre"], arr, np)[slice(*d["s"])], True
    other = rlgen.to_values(d["b"], p["dtype"], _dmode(p))
    if d["t"] == "binop":
        with np.errstate(all="ignore"):
            return getattr(np, d["f"])(arr, other), True
    n_extra = d.get("extra", 0)       # further pieces: the first array again, the second again, ...
    pieces = [arr, other] + [(arr if k % 2 == 0 else other) for k in range(n_extra)]
    return np.concatenate(pieces), False


def _run_derived(p):
    from npstructures import RunLengthArray
    def f():
        arr = rlgen.to_values(p["a"], p["dtype"], _dmode(p))
        d = p["derived"]
        r = RunLengthArray.from_array(arr)
        if d["t"] == "slice":
            res = r[slice(*d["s"])]
        elif d["t"] == "same":
            with np.errstate(all="ignore"):
                res = _same_source(d["f"], r)
        elif d["t"] == "chain":
            with np.errstate(all="ignore"):
                res = _chain_pre(d["pre"], r, np)[slice(*d["s"])]
        else:
            other = RunLengthArray.from_array(rlgen.to_values(d["b"], p["dtype"], _dmode(p)))
            with np.errstate(all="ignore"):
                if d["t"] == "binop":
                    res = getattr(np, d["f"])(r, other)
                else:
                    # two or more pieces, some of them THE SAME OBJECT more than once; afterwards every piece still decodes as before
                    pieces = [r, other] + [(r if k % 2 == 0 else other) for k in range(d.get("extra", 0))]
                    res = np.concatenate(pieces)
                    if not (np.array_equal(r.to_array(), arr, equal_nan=True) and len(r) == len(arr)
                            and np.array_equal(other.to_array(), rlgen.to_values(d["b"], p["dtype"], _dmode(p)), equal_nan=True)):
                        raise engine.Inconsistent("np.concatenate changed one of its operands")
        dense, joined = _derived(p, arr)
        if len(dense) == 0:
            return {"k": "obs", "canonical": canon(True)}          # the empty result has no canonical form to judge
        return {"k": "obs", "canonical": guarded(lambda: rlgen.canonical_info(res, joined)), "to_array": guarded(lambda: res.to_array())}
    return guarded(f)


def _other_dtype(dt):
    """an element type other than the array's own to which numpy converts every cell in a defined way"""
    return np.dtype(np.float32) if dt == np.float64 else np.dtype(np.int64) if dt == np.bool_ else np.dtype(np.float64)


def run_impl(p):
    from npstructures import RunLengthArray
    if "derived" in p:
        return _run_derived(p)
    def f():
        arr = rlgen.to_values(p["a"], p["dtype"], _mode(p))
        before = arr.copy()
        r = RunLengthArray.from_array(arr)
        o = {"k": "obs"}
        # the property asks for element-wise EQUALITY: for the signed-zero cases +0.0 and -0.0 are not told apart
        z = (lambda x: np.where(x == 0, np.zeros(1, dtype=x.dtype)[0], x)) if p.get("zeros") else (lambda x: x)
        o["to_array"] = guarded(lambda: z(r.to_array()))
        o["asarray"] = guarded(lambda: z(np.asarray(r)))
        # numpy's array conversion WITH an element type: the decoded cells, converted (np.asarray(r, dtype=...) / np.array(r, dtype=...))
        odt = _other_dtype(arr.dtype)
        def conv():
            with np.errstate(all="ignore"), warnings.catch_warnings():
                warnings.simplefilter("ignore")
                r3 = RunLengthArray.from_array(arr.copy())
                return z(np.asarray(r3, dtype=odt) if len(arr) % 2 else np.array(r3, dtype=odt))
        o["asarray_as"] = guarded(conv)
        o["len"] = guarded(lambda: int(len(r)))
        o["size"] = guarded(lambda: int(r.size))
        o["ndim"] = guarded(lambda: int(r.ndim))
        o["shape"] = guarded(lambda: [int(x) for x in r.shape])
        o["dtype"] = guarded(lambda: str(r.dtype))
        o["starts"] = guarded(lambda: [int(x) for x in r.starts])
        o["ends"] = guarded(lambda: [int(x) for x in r.ends])
        o["values"] = guarded(lambda: z(np.asarray(r.values)))
        o["canonical"] = guarded(lambda: rlgen.canonical_info(r, joined=True))
        o["input_unmodified"] = canon(bool(np.array_equal(arr.view(np.uint8), before.view(np.uint8))))
        def independent():
            # what decoding hands out belongs to the caller: overwriting it must not change what the array (or the array it was
            # sliced from) decodes to afterwards
            ref = r.to_array().copy()
            for get in (lambda: r.to_array(), lambda: np.asarray(r), lambda: r[1:].to_array() if len(arr) > 1 else r.to_array(),
                        lambda: r[::1].to_array(), lambda: r[::2].to_array(), lambda: r[::3].to_array(), lambda: r[::-1].to_array(),
                        lambda: r[0::len(arr) + 1].to_array()):
                d = get()
                if isinstance(d, np.ndarray) and d.flags.writeable and d.size:
                    d[...] = d[::-1].copy() if d.size > 1 and not np.array_equal(d, d[::-1], equal_nan=True) else np.zeros(1, dtype=d.dtype)[0] + (d[0] == 0)
                again = r.to_array()
                if not np.array_equal(again.view(np.uint8), ref.view(np.uint8)) or len(r) != len(arr) or int(r.ends[-1]) != len(arr):
                    return False
            # a conversion to ANOTHER element type first, then the plain conversion: the array's own type and cells again
            with np.errstate(all="ignore"), warnings.catch_warnings():
                warnings.simplefilter("ignore")
                for odt in (np.float32 if ref.dtype != np.float32 else np.float64, bool, np.int8):
                    r2 = RunLengthArray.from_array(arr.copy())          # (a fresh object: its FIRST conversion is the foreign one)
                    try:
                        np.asarray(r2, dtype=odt); np.array(r2, dtype=odt)
                    except Exception:
                        pass
                    plain = np.asarray(r2)
                    if plain.dtype != ref.dtype or not np.array_equal(plain.view(np.uint8), ref.view(np.uint8)):
                        return False
            # augmented assignment on a step-1 SLICE (b = r[1:]; b += 1 / b *= 2 / negative in place): the source keeps its cells
            if len(arr) > 1 and ref.dtype.kind in "iuf":
                with np.errstate(all="ignore"), warnings.catch_warnings():
                    warnings.simplefilter("ignore")
                    for op in ("iadd", "imul", "neg"):
                        b = r[1:] if op != "imul" else r[:-1]
                        try:
                            if op == "iadd":
                                b += 1
                            elif op == "imul":
                                b *= 2
                            else:
                                np.negative(b, out=b)
                        except Exception:
                            pass
                        if not np.array_equal(r.to_array().view(np.uint8), ref.view(np.uint8)):
                            return False
            return True
        o["decode_independent"] = guarded(lambda: canon(independent()))
        return o
    return guarded(f)


def oracle(p):
    if "derived" in p:
        arr = rlgen.to_values(p["a"], p["dtype"], _dmode(p))
        dense, _ = _derived(p, arr)
        if len(dense) == 0:
            return {"k": "obs", "canonical": canon(True)}
        return {"k": "obs", "canonical": canon(True), "to_array": canon(dense)}
    arr = rlgen.to_values(p["a"], p["dtype"], _mode(p))
    n = len(arr)
    with np.errstate(all="ignore"):
        ne = arr[1:] != arr[:-1]
    bounds = [0] + [i + 1 for i in range(n - 1) if ne[i]] + [n]
    o = {"k": "obs"}
    if p.get("zeros"):
        arr = np.where(arr == 0, np.zeros(1, dtype=arr.dtype)[0], arr)
    o["to_array"] = canon(arr); o["asarray"] = canon(arr)
    with np.errstate(all="ignore"), warnings.catch_warnings():
        warnings.simplefilter("ignore")
        o["asarray_as"] = canon(arr.astype(_other_dtype(arr.dtype)))
    o["len"] = canon(n); o["size"] = canon(n); o["shape"] = canon([n]); o["ndim"] = canon(1)
    o["dtype"] = {"k": "other", "v": repr(str(arr.dtype))}
    o["starts"] = canon(bounds[:-1]); o["ends"] = canon(bounds[1:])
    o["values"] = canon(arr[bounds[:-1]])
    o["canonical"] = canon(True)
    o["input_unmodified"] = canon(True)
    o["decode_independent"] = canon(True)
    return o


def _nan_class(p):
    if np.dtype(p["dtype"]).kind != "f":
        return None
    L = rlgen.letters(p["dtype"], _mode(p))
    for i, v in enumerate(L):
        if v != v:
            return i
    return None


def lean_request(p):
    if p.get("zeros"):
        return None         # +0.0 / -0.0 are equal but not identical: outside the hypothesis of C14_decode_encode (its counterexample)
    if "derived" in p or p.get("long"):
        return None         # the theorems about derived arrays are C15_slice / C16_binary_canonical / C16_concat
    return {"op": "RL.encode", "a": rlgen.lean_classes(p["a"], p["dtype"], _mode(p)), "nan": _nan_class(p)}


def decode_lean(p, resp):
    L = rlgen.letters(p["dtype"], _mode(p))
    def conv(j):
        o = {"k": "obs"}
        o["to_array"] = canon(np.array([L[c] for c in j["to_array"]], dtype=p["dtype"]))
        o["len"] = canon(j["len"])
        o["starts"] = canon(j["events"][:-1]); o["ends"] = canon(j["events"][1:])
        o["values"] = canon(np.array([L[c] for c in j["values"]], dtype=p["dtype"]))
        o["canonical"] = canon(bool(j["valid"]))
        return o
    return conv(resp["L"]), conv(resp["S"])


def same(a, b):
    if isinstance(a, dict) and isinstance(b, dict) and a.get("k") == "obs" and b.get("k") == "obs":
        ks = (set(a) & set(b)) - {"k"}
        return bool(ks) and all(engine.same(a[k], b[k]) for k in ks)
    return engine.same(a, b)


def matches_finding(f, p, impl, expect):
    return False
