"""C01 — a RaggedArray holds exactly the rows it was built from."""
import os, tempfile, shutil, warnings
import numpy as np
import engine, gens
from engine import canon, guarded, refuse

ID = "C01"
LEVEL = "proof"
LEVEL_TEXT = ("Machine-checked Lean 4 theorems (all row-length vectors, all element types/contents, no bounds) that the "
              "model of RaggedShape(lengths)/RaggedArray construction has the exclusive-prefix-sum geometry and reads back "
              "exactly the rows it was built from (iteration/tolist/len/size/lengths/ravel/astype), accepts a flat buffer iff "
              "its size matches and then cuts it at the lengths; flat<->(row,col) maps invert each other for every placement of "
              "empty rows, index_array lists the row of every position, to/from numpy round-trips every rectangular matrix; "
              "from_dict's legacy offsets form of any row-length vector, from any base, loads as the geometry of those lengths; "
              "the model is tied to /repo by a correspondence check "
              "(implementation vs compiled Lean model vs Lean spec vs CPython oracle on exhaustive small shapes + random shapes "
              "x dtypes, incl. geometry internals, unravel/ravel maps, to/from numpy, save/load, from_dict).")
LEVEL_NOTE = ("Trusted: Lean kernel; axioms propext/Classical.choice/Quot.sound; the hand-written model of the constructor "
              "(modelled, tied by differential correspondence only); numpy file I/O; dtype tags and save/load "
              "are correspondence-only facets (from_dict's legacy offsets form and equals have theorems: C01_offsets_form, C01_equals).")
TECHNIQUE = "Lean 4 proof of model = list-of-rows spec; model tied to code by differential correspondence"
DESIGN_REF = "7"
LEAN_MODULES = ["NpsVerif.Props.C01", "NpsVerif.Props.C01B", "NpsVerif.Props.C01C"]
KERNELS = ()
RULE = ("cases = (constructor kind: list-of-rows | flat+lengths (matching / mismatching) | geometry object) x "
        "row-length vector (exhaustive small scope + random, empty rows anywhere) x dtype; "
        "distinct = distinct (kind, lengths, dtype, data size); non-trivial = at least one row and the constructor accepts")
EXHAUSTIVE = {"quick": False, "thorough": False}
CORRESPONDENCE_ONLY = ["save/load round trip (numpy file I/O)", "dtype tags (same element type)",
                       "equals on float cells holding NaN (not judged)"]
ASSUMPTIONS = ["np.savez/np.load round-trip arrays (numpy file I/O is trusted)",
               "Python is not run with -O (assert statements are refusals)"]
TRUSTED = []


def _vals(p):
    import random
    n = sum(p["lens"]) if "lens" in p else len(p.get("data", []))
    return gens.cell_values(p["dtype"], max(n, p.get("ndata", 0)), random.Random(p.get("vseed", 0)))


def cases(rng, tier):
    out = []
    shapes = gens.shapes_exhaustive(3, 3) if tier == "quick" else gens.shapes_exhaustive(4, 3)
    nrand = 150 if tier == "quick" else 1500
    shapes = shapes + [gens.shape_random(rng, 14, 9) for _ in range(nrand)]
    for lens in shapes:
        dts = gens.pick_dtypes(rng, tier, 2) if tier == "quick" else gens.pick_dtypes(rng, "quick", 4)
        out.append({"kind": "shape", "lens": lens})
        for dt in dts:
            vs = rng.randint(0, 10 ** 6)
            out.append({"kind": "rows", "lens": lens, "dtype": dt, "vseed": vs})
            # the shape argument as a list of lengths / an ndarray / the (n_rows, lengths) pair that `.shape` returns / a RaggedShape
            out.append({"kind": "flat", "lens": lens, "dtype": dt, "vseed": vs, "ndata": sum(lens), "form": rng.randint(0, 3)})
        # mismatching sizes: one short, one long
        dt = rng.choice(gens.DTYPES)
        for d in (-1, 1, rng.randint(2, 5)):
            nd = sum(lens) + d
            if nd >= 0:
                # (a geometry OBJECT is the library's internal way of sharing a buffer between arrays: its size is not checked
                #  against the buffer and the property does not speak about it; mismatches are given as lengths)
                out.append({"kind": "flat", "lens": lens, "dtype": dt, "vseed": 1, "ndata": nd, "form": rng.choice([0, 1, 2, 4])})
    # row lengths given in a NARROW integer type whose range the running total leaves (100 + 100 + 60 in uint8 / int8 ...)
    for _ in range(40 if tier == "quick" else 400):
        ldt = rng.choice(["uint8", "int8", "int16", "uint16", "uint8", "int8"])
        hi = int(np.iinfo(ldt).max)
        lens = [rng.choice([0, hi // 3, hi // 2, hi // 4, 3]) if ldt in ("uint8", "int8") else rng.choice([0, 300, 3, 20000 if rng.random() < 0.3 else 5]) for _ in range(rng.randint(3, 6))]
        out.append({"kind": "flat", "lens": lens, "dtype": rng.choice(["int64", "int8", "float64"]), "vseed": rng.randint(0, 999), "ndata": sum(lens), "form": rng.choice([1, 2]), "ldt": ldt, "big": sum(lens) > 3000})
        out.append({"kind": "shape", "lens": lens, "ldt": ldt, "big": sum(lens) > 3000})
    # scale: many rows (more than 2**16, more than 100000) and long rows (more than 2**8 / 2**16 cells); implementation vs oracle only
    for lens in ([[rng.choice([0, 1, 2]) for _ in range(66000)], [300, 0, 65537, 1, 257]] if tier == "quick" else
                 [[rng.choice([0, 1, 2]) for _ in range(n)] for n in (65535, 65537, 100001, 200001)] + [[300, 0, 65537, 1, 257], [70000, 70000], [0] * 65537 + [5]]):
        if len(lens) < 100 or tier != "quick":
            out.append({"kind": "shape", "lens": lens, "big": True})
        out.append({"kind": "flat", "lens": lens, "dtype": rng.choice(["int64", "int8", "float32"]), "vseed": rng.randint(0, 999), "ndata": sum(lens), "form": rng.randint(0, 3), "big": True})
    if tier == "thorough":
        for lens in gens.shapes_exhaustive(3, 3):
            for dt in gens.DTYPES:
                out.append({"kind": "rows", "lens": lens, "dtype": dt, "vseed": 7})
    return out


def key(p):
    if p.get("big"):
        return (p["kind"], len(p["lens"]), sum(p["lens"]), p.get("dtype"))
    return (p["kind"], tuple(p["lens"]), p.get("dtype"), p.get("ndata"))


def nontrivial(p):
    return len(p["lens"]) > 0 and (p["kind"] != "flat" or p["ndata"] == sum(p["lens"]))


def distribution(payloads):
    d = gens.shape_stats([p["lens"] for p in payloads])
    d["kinds"] = gens.hist(p["kind"] for p in payloads)
    d["shape_argument_forms"] = gens.hist(["list", "ndarray", "(n_rows, lengths)", "RaggedShape", "other.shape"][p.get("form", 0)] for p in payloads if p["kind"] == "flat")
    d["dtypes"] = gens.hist(p.get("dtype") for p in payloads)
    d["flat_mismatching"] = sum(1 for p in payloads if p["kind"] == "flat" and p["ndata"] != sum(p["lens"]))
    return d


_scratch = None


def setup():
    global _scratch
    import atexit
    base = os.environ.get("TMPDIR") or "/var/tmp"
    _scratch = tempfile.mkdtemp(prefix="nps-verif-c01-", dir=base)
    atexit.register(lambda: shutil.rmtree(_scratch, ignore_errors=True))


def _obs_array(ra, other_dt):
    from npstructures import RaggedArray
    o = {"k": "obs"}
    o["len"] = guarded(lambda: len(ra))
    o["size"] = guarded(lambda: int(ra.size))
    o["ndim"] = guarded(lambda: int(ra.ndim))
    o["dtype"] = guarded(lambda: str(ra.dtype))
    o["shape0"] = guarded(lambda: int(ra.shape[0]))
    o["lengths"] = guarded(lambda: [int(x) for x in ra.shape[1]])
    o["lengths2"] = guarded(lambda: [int(x) for x in ra.lengths])
    o["iter"] = guarded(lambda: [np.asarray(r) for r in ra])
    o["tolist"] = guarded(lambda: canon(RaggedArray(ra.ravel(), ra._shape)))
    o["ravel"] = guarded(lambda: ra.ravel())
    def astype_other():
        # a converted copy (to another dtype AND to the dtype the array already has) is a new array: writing into it leaves the
        # source as it was
        conv = ra.astype(other_dt)
        for c in (conv, ra.astype(ra.dtype), ra.astype(str(ra.dtype))):
            keep = np.asarray(ra.ravel()).copy()
            if c.size:
                c.ravel()[...] = c.ravel()[::-1].copy()
                c.fill(np.zeros(1, dtype=c.dtype)[0])
            if np.asarray(ra.ravel()).tobytes() != keep.tobytes():
                raise engine.Inconsistent("astype returned an array that shares its cells with the source")
        return ra.astype(other_dt)
    o["astype"] = guarded(astype_other)
    o["to_numpy"] = guarded(lambda: ra.to_numpy_array())
    o["to_numpy_shape"] = guarded(lambda: [int(x) for x in ra.to_numpy_array().shape])
    def equals():
        # equals: same rows (cells AND row lengths); a changed cell, or the same cells cut into other rows, is another array
        if ra.dtype.kind == "f" and bool(np.isnan(np.asarray(ra.ravel())).any()):
            return "nan-cells"          # (a NaN cell equals nothing, itself included: not judged)
        same = RaggedArray(np.asarray(ra.ravel()).copy(), [int(x) for x in ra.lengths])
        res = [bool(ra.equals(same)), bool(same.equals(ra))]
        if ra.size:
            other = RaggedArray(np.asarray(ra.ravel()).copy(), [int(x) for x in ra.lengths])
            flat = other.ravel(); flat[-1] = np.zeros(1, dtype=flat.dtype)[0] if flat[-1] != 0 else np.ones(1, dtype=flat.dtype)[0]
            res.append(bool(ra.equals(other)))
        lens = [int(x) for x in ra.lengths]
        if len(lens) >= 2 and lens[0] != lens[-1]:
            res.append(bool(ra.equals(RaggedArray(np.asarray(ra.ravel()).copy(), lens[::-1]))))
        return res
    o["equals"] = guarded(equals)
    def sl():
        fn = os.path.join(_scratch, "x")
        ra.save(fn)
        try:
            b = RaggedArray.load(fn + ".npz")
            return (b, bool(b.equals(ra)) if ra.dtype.kind != "f" else True)
        finally:
            if os.path.exists(fn + ".npz"):
                os.remove(fn + ".npz")
    o["save_load"] = guarded(sl)
    return o


def _other_dtype(dt):
    return {"bool": "int8", "float32": "float64", "float64": "float32"}.get(dt, "int64" if dt != "int64" else "float64")


def _safe_other(dt):
    """another element type that holds every value of dt (the conversion of values that do not fit is not C01's subject)"""
    od = _other_dtype(dt)
    return od if np.can_cast(np.dtype(dt), np.dtype(od), "safe") else {"float64": "float64", "uint64": "float64"}.get(dt, dt)


def run_impl(p):
    from npstructures import RaggedArray, RaggedShape
    if p["kind"] == "shape":
        def f():
            sh = RaggedShape(p["lens"] if not p.get("ldt") else np.array(p["lens"], dtype=p["ldt"]))
            o = {"k": "obs"}
            o["starts"] = guarded(lambda: [int(x) for x in sh.starts])
            o["ends"] = guarded(lambda: [int(x) for x in sh.ends])
            o["lengths"] = guarded(lambda: [int(x) for x in sh.lengths])
            o["size"] = guarded(lambda: int(sh.size))
            o["n_rows"] = guarded(lambda: int(sh.n_rows))
            n = sum(p["lens"])
            def unr():
                r, c = sh.unravel_multi_index(np.arange(n))
                return [[int(a), int(b)] for a, b in zip(r, c)]
            o["unravel"] = guarded(unr) if n else canon([])
            def unr_perm():
                # the same map for flat positions in ANY order (descending, a fixed shuffle, with repeats): position by position
                import random as _r
                if n > 3000:
                    return "big"
                idx = list(range(n)); _r.Random(n * 7 + len(p["lens"])).shuffle(idx)
                outs = []
                for q in (list(range(n))[::-1], idx, idx[: n // 2 + 1] + idx[: n // 2 + 1]):
                    r, c = sh.unravel_multi_index(np.array(q, dtype=np.int64))
                    outs.append([[int(a), int(b)] for a, b in zip(r, c)])
                return outs
            o["unravel_any_order"] = guarded(unr_perm) if n else canon([])
            def rav():
                rc = [(r, c) for r, l in enumerate(p["lens"]) for c in range(l)]
                if not rc:
                    return []
                return [int(x) for x in sh.ravel_multi_index((np.array([r for r, _ in rc]), np.array([c for _, c in rc])))]
            o["ravel_idx"] = guarded(rav)
            def rav_forms():
                # the (row, column) pairs as lists, as narrow / unsigned / 64-bit arrays, and the empty selection: the flat
                # positions are integers (usable as indices) in every case
                rc = [(r, c) for r, l in enumerate(p["lens"]) for c in range(l)]
                rows = [r for r, _ in rc]; cols = [c for _, c in rc]
                out = []
                for mk in (lambda v: list(v), lambda v: np.array(v, dtype=np.uint64), lambda v: np.array(v, dtype=np.int16 if max(list(v) + [0]) < 32768 else np.int32), lambda v: np.array(v, dtype=np.intp),
                           lambda v: np.array(v, dtype=np.int32), lambda v: np.array(v, dtype=np.int64)):
                    for rr, cc in ((mk(rows), mk(cols)), (mk([]), mk([]))):
                        if len(p["lens"]) == 0 and len(rr):
                            continue
                        res = np.asarray(sh.ravel_multi_index((rr, cc)))
                        first = [int(x) for x in res]
                        # the index arrays stay the caller's: unchanged by the call, and the same call again gives the same
                        # positions without disturbing the first result
                        second = [int(x) for x in np.asarray(sh.ravel_multi_index((rr, cc)))]
                        if [int(x) for x in rr] != rows[:len(rr)] or [int(x) for x in cc] != cols[:len(cc)]:
                            raise engine.Inconsistent("ravel_multi_index changed the index arrays it was given")
                        if second != first or [int(x) for x in res] != first:
                            raise engine.Inconsistent("ravel_multi_index on the same arguments gave two different results")
                        out.append([res.dtype.kind in "iu", first])
                return out
            o["ravel_idx_forms"] = guarded(rav_forms)
            o["index_array"] = guarded(lambda: [int(x) for x in sh.index_array()]) if len(p["lens"]) else canon([])
            def dict_rt():
                d = sh.to_dict()
                a = RaggedShape.from_dict(d)
                ends = np.cumsum(p["lens"])
                b = RaggedShape.from_dict({"offsets": np.insert(ends, 0, 0)})
                return [[int(x) for x in a.starts], [int(x) for x in a.lengths], [int(x) for x in b.starts], [int(x) for x in b.lengths]]
            o["dict_roundtrip"] = guarded(dict_rt)
            def offsets_form():
                # the legacy form from base 0 and from another base: [starts, lengths] of each
                ends = np.cumsum(np.asarray(p["lens"], dtype=np.int64))
                res = []
                for base in (0, 5):
                    b = RaggedShape.from_dict({"offsets": np.insert(ends, 0, 0) + base})
                    res.append([[int(x) for x in b.starts], [int(x) for x in b.lengths]])
                return res
            o["offsets_form"] = guarded(offsets_form)
            return o
        return guarded(f)
    vals = _vals(p)
    if p["kind"] == "rows":
        rows, k = [], 0
        for l in p["lens"]:
            rows.append(vals[k:k + l]); k += l
        def f():
            ra = RaggedArray([list(r) for r in rows], dtype=p["dtype"])
            o = _obs_array(ra, _other_dtype(p["dtype"]))
            def nprt():
                m = ra.to_numpy_array()
                return RaggedArray.from_numpy_array(m)
            o["numpy_roundtrip"] = guarded(nprt)
            def nprt_rows():
                # the converted matrix must be a fully working array: rows selected one by one, reversed, by list and by mask
                r = nprt()
                n = len(r)
                if n == 0:
                    return []
                return [[r[i].tolist() for i in range(n)], r[::-1].tolist(), r[[0, n - 1]].tolist(), r[np.arange(n) % 2 == 0].tolist()]
            o["numpy_roundtrip_rows"] = guarded(nprt_rows)
            def nprt_layouts():
                # the same matrix in other memory layouts (Fortran order, a transposed view of its transpose, every
                # second row of a taller matrix, read-only): from_numpy_array must read it by (row, column), not by memory
                m = ra.to_numpy_array()
                tall = np.repeat(m, 2, axis=0)
                ro = m.copy(); ro.setflags(write=False)
                outs = [RaggedArray.from_numpy_array(x) for x in (np.asfortranarray(m), m.T.copy().T, tall[::2], ro)]
                first = outs[0]
                if not all(np.asarray(x.ravel()).tobytes() == np.asarray(first.ravel()).tobytes() and list(x.lengths) == list(first.lengths)
                           and x.dtype == first.dtype for x in outs):
                    raise engine.Inconsistent("from_numpy_array depends on the memory layout of its argument")
                return first
            o["numpy_roundtrip_layouts"] = guarded(nprt_layouts)
            def from_ndarray_rows():
                # the rows as a list of 1-d ndarrays, no dtype argument; an empty row is what np.array([]) gives (float64): the element
                # type comes from the cells that exist
                rr = [np.array(r, dtype=p["dtype"]) if len(r) else np.array([]) for r in rows]
                return RaggedArray(rr)
            if sum(p["lens"]) > 0:
                o["from_ndarray_rows"] = guarded(from_ndarray_rows)
            def from_ragged():
                # the rows given as a RaggedArray (a sequence of rows like any other), with an element type: the new array has that
                # type and owns its cells (a write into either leaves the other alone)
                od = _safe_other(p["dtype"])
                src = RaggedArray([list(r) for r in rows], dtype=p["dtype"])
                new, same_t = RaggedArray(src, dtype=od), RaggedArray(src, dtype=p["dtype"])
                res = [str(new.dtype), new.tolist(), str(same_t.dtype), same_t.tolist()]
                if src.size:
                    before = np.asarray(src.ravel()).tobytes()
                    new.ravel()[...] = 1; same_t.fill(1)
                    res.append(np.asarray(src.ravel()).tobytes() == before)
                    src.fill(0)
                    res.append([bool(np.all(np.asarray(new.ravel()) == 1)), bool(np.all(np.asarray(same_t.ravel()) == 1))])
                return res
            o["from_ragged"] = guarded(from_ragged)
            return o
        return guarded(f)
    if p["kind"] == "flat":
        def f():
            form = p.get("form", 0)
            lens = list(p["lens"])
            ldt = p.get("ldt") or "int64"          # element type of the lengths vector (a narrow one cannot even hold the total)
            if form == 1:
                shape = np.array(lens, dtype=ldt)
            elif form == 4:
                # the `.shape` of another array with these rows (a (n_rows, lengths) pair object handed out by the library)
                shape = RaggedArray(np.zeros(sum(lens), dtype=np.int8), lens).shape
            elif form == 2:
                shape = (len(lens), np.array(lens, dtype=ldt))
            elif form == 3:
                from npstructures.raggedshape import RaggedShape
                shape = RaggedShape(lens)
            else:
                shape = lens
            data = vals[:p["ndata"]].copy()
            if p["vseed"] % 4 == 3 and p["dtype"] in ("int64", "float64", "bool") and p["ndata"] > 0:
                data = data.tolist()          # the flat buffer as a plain Python list (its element type is then numpy's default for it)
            ra = RaggedArray(data, shape)
            # the row lengths belong to the caller: overwriting the array they came from leaves the RaggedArray as it was built
            larr = shape if isinstance(shape, np.ndarray) else shape[1] if (isinstance(shape, tuple) and form == 2) else None
            if larr is not None and larr.size and p["ndata"] == sum(lens):
                larr[...] = larr[::-1].copy() + 1
            return _obs_array(ra, _other_dtype(p["dtype"]))
        return guarded(f)
    raise ValueError(p)


def _expected_array(rows, dt, other_dt):
    """what the plain rows give, computed with CPython/numpy only"""
    dt = np.dtype(dt)
    lens = [len(r) for r in rows]
    flat = np.array([x for r in rows for x in r], dtype=dt)
    ra_c = {"k": "ra", "dt": str(dt), "v": [engine._nest(np.array(r, dtype=dt).tolist()) for r in rows]}
    o = {"k": "obs"}
    o["len"] = canon(len(rows))
    o["size"] = canon(sum(lens))
    o["ndim"] = canon(2)
    o["dtype"] = canon(str(dt)) if False else {"k": "other", "v": repr(str(dt))}
    o["shape0"] = canon(len(rows))
    o["lengths"] = canon(lens)
    o["lengths2"] = canon(lens)
    o["iter"] = canon([np.array(r, dtype=dt) for r in rows])
    o["tolist"] = ra_c
    o["ravel"] = canon(flat)
    with np.errstate(all="ignore"):
        import warnings
        with warnings.catch_warnings():
            warnings.simplefilter("ignore")
            o["astype"] = {"k": "ra", "dt": str(np.dtype(other_dt)),
                           "v": [engine._nest(np.array(r, dtype=dt).astype(other_dt).tolist()) for r in rows]}
    if len(rows) == 0:
        o["to_numpy"] = canon(np.empty((0, 0), dtype=dt)); o["to_numpy_shape"] = canon([0, 0])
    elif all(l == lens[0] for l in lens):
        o["to_numpy"] = canon(flat.reshape(len(rows), lens[0])); o["to_numpy_shape"] = canon([len(rows), lens[0]])
    else:
        o["to_numpy"] = refuse(); o["to_numpy_shape"] = refuse()
    eq = [True, True] + ([False] if sum(lens) else []) + ([False] if len(lens) >= 2 and lens[0] != lens[-1] else [])
    o["equals"] = canon("nan-cells" if dt.kind == "f" and bool(np.isnan(flat).any()) else eq)
    o["save_load"] = {"k": "tup", "v": [ra_c, canon(True)]}
    return o


def oracle(p):
    if p["kind"] == "shape":
        lens = p["lens"]
        starts = [sum(lens[:i]) for i in range(len(lens))]
        o = {"k": "obs"}
        o["starts"] = canon(starts)
        o["ends"] = canon([s + l for s, l in zip(starts, lens)])
        o["lengths"] = canon(list(lens))
        o["size"] = canon(sum(lens))
        o["n_rows"] = canon(len(lens))
        rc = [[r, c] for r, l in enumerate(lens) for c in range(l)]
        o["unravel"] = canon(rc)
        if rc and len(rc) <= 3000:
            import random as _r
            n_ = len(rc); idx = list(range(n_)); _r.Random(n_ * 7 + len(lens)).shuffle(idx)
            o["unravel_any_order"] = canon([[rc[i] for i in q] for q in (list(range(n_))[::-1], idx, idx[: n_ // 2 + 1] + idx[: n_ // 2 + 1])])
        else:
            o["unravel_any_order"] = canon("big") if rc else canon([])
        o["ravel_idx"] = canon(list(range(sum(lens))))
        full = list(range(sum(lens)))
        o["ravel_idx_forms"] = canon([[True, v] for _ in range(6) for v in (full, [])])
        o["index_array"] = canon([r for r, _ in rc])
        o["dict_roundtrip"] = canon([starts, list(lens), starts, list(lens)])
        o["offsets_form"] = canon([[starts, list(lens)], [starts, list(lens)]])
        return o
    vals = _vals(p)
    if p["kind"] == "flat" and p["ndata"] != sum(p["lens"]):
        return refuse()
    rows, k = [], 0
    for l in p["lens"]:
        rows.append(list(vals[k:k + l])); k += l
    o = _expected_array(rows, p["dtype"], _other_dtype(p["dtype"]))
    if p["kind"] == "rows":
        lens = p["lens"]
        if len(lens) == 0:
            # to_numpy gives a 0x0 matrix; from_numpy of it is the zero-row array
            o["numpy_roundtrip"] = {"k": "ra", "dt": p["dtype"], "v": []}
        elif all(l == lens[0] for l in lens):
            o["numpy_roundtrip"] = o["tolist"]
        else:
            o["numpy_roundtrip"] = refuse()
        o["numpy_roundtrip_layouts"] = o["numpy_roundtrip"]
        if len(lens) == 0:
            o["numpy_roundtrip_rows"] = canon([])
        elif all(l == lens[0] for l in lens):
            rl = [np.array(r, dtype=p["dtype"]).tolist() for r in rows]
            n = len(rl)
            o["numpy_roundtrip_rows"] = canon([rl, rl[::-1], [rl[0], rl[n - 1]], [rl[i] for i in range(n) if i % 2 == 0]])
        else:
            o["numpy_roundtrip_rows"] = refuse()
        if sum(lens) > 0:
            o["from_ndarray_rows"] = o["tolist"]
        od = _safe_other(p["dtype"])
        with np.errstate(all="ignore"), warnings.catch_warnings():
            warnings.simplefilter("ignore")
            res = [str(np.dtype(od)), [np.array(r, dtype=p["dtype"]).astype(od).tolist() for r in rows],
                   str(np.dtype(p["dtype"])), [np.array(r, dtype=p["dtype"]).tolist() for r in rows]]
        if sum(lens) > 0:
            res += [True, [True, True]]
        o["from_ragged"] = canon(res)
    return o


def lean_request(p):
    if p.get("big"):
        return None
    if p["kind"] == "shape":
        return {"op": "C01.shape", "lens": p["lens"]}
    if p["kind"] == "rows":
        return {"op": "C01.rows", "rows": gens.rows_of_ids(p["lens"])}
    if p["kind"] == "flat":
        return {"op": "C01.flat", "data": list(range(p["ndata"])), "lens": p["lens"]}


def decode_lean(p, resp):
    def conv(side):
        j = resp[side]
        if isinstance(j, dict) and j.get("refuse"):
            return refuse()
        o = {"k": "obs"}
        if p["kind"] == "shape":
            for k in ("starts", "ends", "lengths", "size", "n_rows", "index_array", "offsets_form"):
                o[k] = canon(j[k])
            o["unravel"] = canon(j["unravel"])
            return o
        vals = _vals(p)
        dt = np.dtype(p["dtype"])
        def rowsv(rs):
            return {"k": "ra", "dt": str(dt), "v": [engine._nest(vals[r].tolist() if len(r) else []) for r in rs]}
        o["tolist"] = rowsv(j["rows"])
        o["ravel"] = canon(vals[j["ravel"]] if len(j["ravel"]) else np.array([], dtype=dt))
        if p["kind"] == "rows":
            o["len"] = canon(j["len"]); o["size"] = canon(j["size"]); o["lengths"] = canon(j["lengths"])
            if "equals" in j:
                # (the model compares cell identities; with NaN cells numpy's == is not an identity test: not judged, as for the implementation)
                o["equals"] = canon("nan-cells" if dt.kind == "f" and bool(np.isnan(vals).any()) else [bool(x) for x in j["equals"]])
            tn = j["to_numpy"]
            if isinstance(tn, dict):
                o["to_numpy"] = refuse()
            elif len(tn) == 0:
                o["to_numpy"] = canon(np.empty((0, 0), dtype=dt))
            else:
                o["to_numpy"] = canon(np.array([vals[r] if len(r) else np.array([], dtype=dt) for r in tn], dtype=dt).reshape(len(tn), -1))
        return o
    return conv("L"), conv("S")


def same(a, b):
    """observation dicts are compared on their shared keys (the Lean model covers a subset of the
    observables; the implementation and the CPython oracle always carry the same keys)."""
    if isinstance(a, dict) and isinstance(b, dict) and a.get("k") == "obs" and b.get("k") == "obs":
        ks = (set(a) & set(b)) - {"k"}
        return bool(ks) and all(engine.same(a[k], b[k]) for k in ks)
    return engine.same(a, b)


def matches_finding(f, p, impl, expect):
    return False
