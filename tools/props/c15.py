"""C15 — indexing a run-length array equals indexing the dense array."""
import numpy as np
import engine, gens, rlgen
from engine import canon, guarded, refuse

ID = "C15"
LEVEL = "proof"
LEVEL_TEXT = ("Lean 4 theorems for every valid run-length array r (a := decode r) over every element type: r[i] = a[i] for -n <= i < n "
              "and a refusal otherwise; r[s:e:k] decodes to CPython's a[s:e:k] for EVERY start/stop (None, negative, beyond the ends) "
              "and every step != 0, is a valid run-length array and (for |k| != 1) has no equal neighbours; sub-range extraction "
              "(searchsorted right/left on the boundaries) and stride subsetting (ceil(i/k) on boundaries, reversal) are proved "
              "separately; windows and run-length masks decode to the per-window slices / the masked cells. The slice-normalisation "
              "kernel is re-generated from /repo's source on every run and bridged; the model is tied to the code by correspondence "
              "on all arrays over 3 letters up to length 6 x all ints, all slices with bounds in [-(n+3), n+3] and steps +-1,2,3,+-(n+1), "
              "masks, windows.")
LEVEL_NOTE = ("Trusted: Lean kernel (+ standard axioms); kernel translator (K8) and its treatment of slice.indices as CPython's "
              "PySlice_AdjustIndices; hand-written model of _start_to_end/_step_subset/_getitem_bool (tied by correspondence); "
              "numpy searchsorted/delete semantics (N layer).")
TECHNIQUE = "Lean 4 proof of decode(index r) = index(decode r); kernel K8 translated from source; correspondence"
DESIGN_REF = "7"
LEAN_MODULES = ["NpsVerif.Props.C15"]
KERNELS = ("rl_slice_bounds",)
RULE = ("cases = encoded array (exhaustive over 3 letters up to length 4 quick / 6 thorough + random long-run arrays) x index "
        "(every int in [-(n+2), n+1]; int lists with repeats / out of range; dense bool masks; run-length bool masks, canonical and as produced by a comparison (`x[x > 0]`: equal neighbouring runs); every slice with "
        "bounds in {None} U [-(n+3), n+3] and steps None,+-1,+-2,+-3,+-(n+1); start/stop window vectors) x dtype; "
        "long arrays (around 2**8 and 2**16 cells) with lists, slices, windows and masks that keep hundreds / tens of thousands of cells of one run; distinct = distinct (classes, index); non-trivial = not a refusal and array length >= 2")
EXHAUSTIVE = {"quick": False, "thorough": False}
CORRESPONDENCE_ONLY = ["dtype tags"]
ASSUMPTIONS = []


def _slices(n, rng, full):
    b = [None] + list(range(-(n + 3), n + 4))
    steps = [None, 1, 2, 3, -1, -2, -3, n + 1, -(n + 1)]
    allsl = [(x, y, k) for x in b for y in b for k in steps]
    if full:
        return allsl
    return rng.sample(allsl, min(len(allsl), 60))


def cases(rng, tier):
    out = []
    def add(a, ix, dt=None):
        # the cells: the dtype's extremes / NaN / -0.0 (default), or NEIGHBOURING values (distinct, equal only to a tolerant comparison)
        dt = dt or rng.choice(gens.DTYPES)
        out.append({"a": a, "ix": ix, "dtype": dt, "vm": "near" if rng.random() < (0.5 if dt.startswith("float") else 0.25) else None})
    arrs = rlgen.arrays_exhaustive(4 if tier == "quick" else 6)
    for a in arrs:
        n = len(a)
        for i in range(-(n + 2), n + 2):
            add(a, {"kind": "int", "i": i})
        full = (n <= 3) if tier == "quick" else (n <= 5)
        for (x, y, k) in _slices(n, rng, full):
            add(a, {"kind": "slice", "a0": x, "b0": y, "k": k}, dt="int64" if full else None)
        # as many positions as the array has cells, in a narrow (also unsigned 8-bit) index dtype: positions, not a mask
        add(a, {"kind": "list", "is": [rng.randint(0, n - 1) for _ in range(n)], "idt": rng.choice(["uint8", "uint8", "int8", "uint16"])})
        # steps far beyond the array (and beyond 32 bits): one element, like any step >= the length
        for k in rng.sample([2 ** 31 - 1, 2 ** 31, 2 ** 31 + 7, -(2 ** 31 - 2), -(2 ** 31), 2 ** 32 + 1, 2 ** 62, -(2 ** 62), 2 ** 63 - 1], 2):
            add(a, {"kind": "slice", "a0": rng.choice([None, None, 0, 1, -1]), "b0": None, "k": k})
        for _ in range(3):
            kk = rng.randint(0, 4)
            bad = rng.random() < 0.2
            lo, hi = (-(n + 2), n + 1) if bad else (-n, n - 1)
            add(a, {"kind": "list", "is": [rng.randint(lo, hi) for _ in range(kk)]})
        # ordered index lists longer than the array has runs: ascending / descending / constant, negative, non-negative and MIXED signs
        j = rng.randint(0, n)
        add(a, {"kind": "list", "is": list(range(-j, n - j)) + ([n - j - 1] * 2 if n - j - 1 >= -n and j < n else [])})
        add(a, {"kind": "list", "is": sorted(rng.randint(-n, n - 1) for _ in range(n + 3)), "idt": rng.choice(["int8", "int16", "int32", "intp"])})
        add(a, {"kind": "list", "is": sorted((rng.randint(-n, n - 1) for _ in range(n + 2)), reverse=True)})
        masks = [[bool((m >> i) & 1) for i in range(n)] for m in (range(2 ** n) if n <= 4 else rng.sample(range(2 ** n), 12))]
        for bs in masks:
            add(a, {"kind": "mask", "bs": bs, "rl": False})
            add(a, {"kind": "mask", "bs": bs, "rl": True})
            # the same mask obtained by comparing a run-length array with a scalar (`x[x > 0]`): such a mask keeps the run
            # boundaries of its source, so neighbouring runs may hold the same boolean
            add(a, {"kind": "mask", "bs": bs, "rl": True, "lv": [rng.randint(1, 2) if b else rng.choice([0, 0, -1]) for b in bs]})
        for _ in range(3):
            kk = rng.randint(1, 3)
            ss, es = [], []
            for _ in range(kk):
                s = rng.randint(0, n - 1); e = rng.randint(s + 1, n)
                ss.append(s); es.append(e)
            add(a, {"kind": "windows", "ss": ss, "es": es})
    # LONG arrays (lengths around 2**8 and 2**16, a few long runs; positions next to those boundaries): implementation vs oracle
    # only (too long for the Lean driver)
    for L in ([255, 257, 65535, 65537, 70000] if tier == "quick" else [255, 256, 257, 65535, 65536, 65537, 70000, 131073]):
        cuts = sorted({c for c in (rng.choice([1, 250, 255, 256, 65530, 65535, 65536, 65600, L - 1, rng.randint(1, L)]) for _ in range(4)) if 0 < c < L})
        a, prev, cls = [], 0, rng.randrange(3)
        for c in cuts + [L]:
            a += [cls] * (c - prev); prev = c; cls = (cls + 1) % 3
        pts = [0, 1, 254, 255, 256, 257, 65534, 65535, 65536, 65537, L - 1, -1, -L, -256, -65536]
        pts = [q for q in pts if -L <= q < L]
        add(a, {"kind": "list", "is": pts, "long": True}, dt="int64")
        add(a, {"kind": "list", "is": sorted(pts), "long": True}, dt="int16")
        for (x, y, k) in [(None, None, 2), (None, None, -3), (250, None, 257), (None, 65540, 255), (65530, 65545, 1), (None, None, -65536), (-70000, 70000, 7)]:
            add(a, {"kind": "slice", "a0": x, "b0": y, "k": k, "long": True}, dt=rng.choice(["int64", "uint8", "bool"]))
        add(a, {"kind": "int", "i": rng.choice(pts), "long": True}, dt="int32")
        add(a, {"kind": "list", "is": [1, -1, 100, -100, 5], "long": True, "idt": "int8"}, dt="int64")
        add(a, {"kind": "list", "is": [1, 200, 255, 0, 7], "long": True, "idt": "uint8"}, dt="int16")
        add(a, {"kind": "list", "is": [300, -300, 32767][:3 if L > 32767 else 2], "long": True, "idt": "int16"}, dt="int64")
        ss = [q for q in (0, 254, 65530, L - 3) if 0 <= q < L - 1]
        add(a, {"kind": "windows", "ss": ss, "es": [min(L, q + 10) for q in ss], "long": True}, dt="int64")
        # masks that keep hundreds / tens of thousands of cells of ONE run (all but a few cells; every other cell; a long prefix)
        for bs in ([i != 2 for i in range(L)], [i % 2 == 0 for i in range(L)], [i < L - 3 and i % 300 != 7 for i in range(L)]):
            add(a, {"kind": "mask", "bs": bs, "rl": False, "long": True}, dt=rng.choice(["int64", "uint8", "float64"]))
        add(a, {"kind": "mask", "bs": [i % 300 != 7 for i in range(L)], "rl": True, "long": True}, dt="int64")
    for _ in range(1500 if tier == "quick" else 20000):
        a = rlgen.array_random(rng, 40)
        n = len(a)
        r = rng.random()
        if r < 0.5:
            x, y, k = gens.slice_random(rng, n, big=True)
            add(a, {"kind": "slice", "a0": x, "b0": y, "k": k})
        elif r < 0.6:
            add(a, {"kind": "int", "i": rng.randint(-(n + 1), n)})
        elif r < 0.7:
            add(a, {"kind": "list", "is": [rng.randint(-n, n - 1) for _ in range(rng.randint(0, 6))]})
        elif r < 0.85:
            p = rng.choice([0.1, 0.5, 0.9])
            bs = [rng.random() < p for _ in range(n)]
            ixm = {"kind": "mask", "bs": bs, "rl": rng.random() < 0.7}
            if ixm["rl"] and rng.random() < 0.5:
                ixm["lv"] = [rng.randint(1, 2) if b else rng.choice([0, 0, -1]) for b in bs]
            add(a, ixm)
        else:
            ss, es = [], []
            for _ in range(rng.randint(1, 5)):
                s = rng.randint(0, n - 1); e = rng.randint(s + 1, n)
                ss.append(s); es.append(e)
            add(a, {"kind": "windows", "ss": ss, "es": es})
    return out


def key(p):
    if p["ix"].get("long"):
        return engine.stable_hash([len(p["a"]), p["a"][:3], p["ix"], p["dtype"]])
    return engine.stable_hash([p["a"], p["ix"]])


def nontrivial(p):
    return len(p["a"]) >= 2


def distribution(ps):
    d = rlgen.rl_distribution([p["a"] for p in ps])
    d["index_kinds"] = gens.hist(p["ix"]["kind"] + ("-rl" if p["ix"].get("rl") else "") + ("-from-comparison" if "lv" in p["ix"] else "") for p in ps)
    sl = [p["ix"] for p in ps if p["ix"]["kind"] == "slice"]
    d["slice_step_sign"] = gens.hist(("none" if s["k"] is None else ("+" if s["k"] > 0 else "-")) + ("1" if s["k"] in (None, 1, -1) else "k") for s in sl)
    d["slice_bound_out_of_range"] = sum(1 for p in ps if p["ix"]["kind"] == "slice" and any(b is not None and not (-len(p["a"]) <= b <= len(p["a"])) for b in (p["ix"]["a0"], p["ix"]["b0"])))
    return d


def _rl_result(r, joined):
    o = {"k": "obs"}
    o["decoded"] = guarded(lambda: r.to_array())
    o["canonical"] = guarded(lambda: rlgen.canonical_info(r, joined))
    return o


def run_impl(p):
    from npstructures import RunLengthArray
    ix = p["ix"]
    def f():
        arr = rlgen.to_values(p["a"], p["dtype"], small=p.get("vm") or False)
        r = RunLengthArray.from_array(arr)
        h = len(p["a"]) + sum(p["a"])
        if h % 3 == 0 and len(arr) >= 2:
            # the same content as a DERIVED array: the concatenation of two pieces keeps a run boundary at the cut, so two
            # neighbouring runs may hold the same value
            cut = 1 + h % (len(arr) - 1)
            r = np.concatenate([r[:cut], r[cut:]])
        if h % 2 == 0:
            # the array has been decoded before, and the caller has overwritten what decoding gave him
            d = r.to_array()
            if isinstance(d, np.ndarray) and d.flags.writeable and d.size:
                d[...] = d[::-1].copy()
                d[0] = d[-1]
        k = ix["kind"]
        # the same index spelled as a 1-tuple or next to an Ellipsis (a deterministic third of the integer / slice cases)
        sp = (h + len(str(ix))) % 9
        wrap = (lambda i: (i,)) if sp == 0 else (lambda i: (Ellipsis, i)) if sp == 1 else (lambda i: (i, Ellipsis)) if sp == 2 else (lambda i: i)
        if k == "int":
            # (the position as a Python int or as a numpy integer scalar of some width that holds it)
            return r[wrap(gens.int_form(ix["i"], gens.INT_FORMS[(h + abs(ix["i"])) % len(gens.INT_FORMS)]))]
        if k == "list":
            if len(ix["is"]) % 2 == 0 and "idt" not in ix:
                return r[list(ix["is"])]
            ia = np.array(ix["is"], dtype=[np.int64, np.int32, np.int16][len(ix["is"]) % 3] if max([abs(i) for i in ix["is"]] + [0]) < 30000 else np.int64)
            if "idt" in ix:
                ia = np.array(ix["is"], dtype=ix["idt"])      # a narrow index dtype, also on arrays longer than that dtype can count
            keep = ia.copy()
            if sum(ix["is"]) % 2:
                ia.setflags(write=False)        # an index array the caller does not allow to be written to
            res = r[ia]
            if not np.array_equal(ia, keep):
                raise engine.Inconsistent("indexing modified the caller's index array")
            return res
        if k == "slice":
            res = r[wrap(slice(ix["a0"], ix["b0"], ix["k"]))]
            if sp == 3 and not isinstance(r[...], type(r)):
                raise engine.Inconsistent("rla[...] is not the array")
            return _rl_result(res, joined=ix["k"] not in (None, 1))
        if k == "mask":
            if ix["rl"]:
                if "lv" in ix:
                    m = RunLengthArray.from_array(np.array(ix["lv"], dtype=np.int64)) > 0
                    assert isinstance(m, RunLengthArray) and np.array_equal(m.to_array(), np.array(ix["bs"], dtype=bool))
                else:
                    m = RunLengthArray.from_array(np.array(ix["bs"], dtype=bool))
                return _rl_result(r[m], joined=False)
            # a dense mask as an ndarray or as a plain Python list of bools (numpy treats both as a mask)
            return r[np.array(ix["bs"], dtype=bool)] if sum(ix["bs"]) % 2 == 0 else r[[bool(b) for b in ix["bs"]]]
        if k == "windows":
            res = r[np.array(ix["ss"]):np.array(ix["es"])]
            return res.to_array()
    return guarded(f)


def oracle(p):
    ix = p["ix"]
    arr = rlgen.to_values(p["a"], p["dtype"], small=p.get("vm") or False)
    k = ix["kind"]
    try:
        if k == "int":
            return canon(arr[ix["i"]])
        if k == "list":
            return canon(arr[np.array(ix["is"], dtype=int)])
        if k == "slice":
            return {"k": "obs", "decoded": canon(arr[slice(ix["a0"], ix["b0"], ix["k"])]), "canonical": canon(True)}
        if k == "mask":
            res = arr[np.array(ix["bs"], dtype=bool)]
            return {"k": "obs", "decoded": canon(res), "canonical": canon(True)} if ix["rl"] else canon(res)
        if k == "windows":
            return {"k": "ra", "dt": str(arr.dtype), "v": [engine._nest(arr[s:e].tolist()) for s, e in zip(ix["ss"], ix["es"])]}
    except (IndexError, ValueError):
        return refuse()


def lean_request(p):
    if p["ix"].get("long"):
        return None
    ix = dict(p["ix"])
    ix["op"] = "RL.index"
    ix["a"] = rlgen.lean_classes(p["a"], p["dtype"], small=p.get("vm") or False)
    if np.dtype(p["dtype"]).kind == "f":
        return None     # NaN letters make runs of length 1; the Lean side of C15 uses plain inequality (C14 covers NaN)
    return ix


def decode_lean(p, resp):
    L = rlgen.letters(p["dtype"], p.get("vm") or False)
    dt = p["dtype"]
    ix = p["ix"]
    def vals(cs):
        return canon(np.array([L[c] for c in cs], dtype=dt))
    def conv(j):
        if isinstance(j, dict) and j.get("refuse"):
            return refuse()
        k = ix["kind"]
        if k == "int":
            return canon(np.array([L[j]], dtype=dt)[0])
        if k == "list":
            return vals(j)
        if k == "slice" or (k == "mask" and ix["rl"]):
            return {"k": "obs", "decoded": vals(j["decoded"]), "canonical": canon(bool(j["valid"]))}
        if k == "mask":
            return vals(j["decoded"])
        if k == "windows":
            return {"k": "ra", "dt": str(np.dtype(dt)), "v": [engine._nest(np.array([L[c] for c in w], dtype=dt).tolist()) for w in j]}
    return conv(resp["L"]), conv(resp["S"])


def same(a, b):
    if isinstance(a, dict) and isinstance(b, dict) and a.get("k") == "obs" and b.get("k") == "obs":
        ks = (set(a) & set(b)) - {"k"}
        return bool(ks) and all(engine.same(a[k], b[k]) for k in ks)
    return engine.same(a, b)


def matches_finding(f, p, impl, expect):
    return False
