"""C08 — structural array functions preserve row structure and element order."""
import random, warnings
import numpy as np
import engine, gens
from engine import canon, guarded, refuse

ID = "C08"
LEVEL = "proof"
LEVEL_TEXT = ("Lean 4 theorems for every tuple of operand arrays (0..n rows each, empty rows anywhere), every mask pattern and every "
              "vector of per-row window bounds: the models of concatenate (rows: buffers + lengths; columns: row-wise append), "
              "zeros/ones_like, nonzero (flatnonzero + searchsorted-right inversion of the row geometry), where (flat where on a "
              "ragged mask), subset / boolean-mask indexing (filter + per-row true counts) , ragged_slice (window arithmetic + the "
              "cumsum gather builder; for ragged, 1-D and 2-D ndarray inputs) and the padded-matrix conversion (clamped index matrix, gather, overwrite of the padding cells "
              "found through a view of mostly empty rows) equal their list-of-rows meaning. Tied to the code by correspondence on "
              "exhaustive small shapes x all masks on <= 6 cells x all in-row windows, with distinct cells.")
LEVEL_NOTE = ("Trusted: Lean kernel (+ standard axioms); hand models (tied by correspondence); empty_like's content is arbitrary "
              "by numpy's definition: only its geometry is stated (C08_empty_like) and compared; windows that start outside their row are outside the property.")
TECHNIQUE = "Lean 4 proof of structural functions = list-of-rows spec; model/implementation correspondence"
DESIGN_REF = "7"
LEAN_MODULES = ["NpsVerif.Props.C08A", "NpsVerif.Props.C08B", "NpsVerif.Props.C08C"]
KERNELS = ()
RULE = ("cases = function (concatenate axis 0 / -1, zeros/ones/empty_like, nonzero, where, subset, mask indexing, ragged_slice on "
        "ragged / 1-D / 2-D input, as_padded_matrix left/right) x operand shapes (exhaustive <=3x3 + random) x masks / windows x dtype; "
        "plus mask objects with an in-place history (selected once, changed by &= / |= / ^= / logical_not(out=) / assignment, selecting again), np.where(mask, x, 0) with non-finite cells under a false mask, and every ragged_slice call made twice with the same bound arrays (which must stay unchanged); "
        "distinct = distinct (function, shapes, mask/window); non-trivial = at least one cell")
EXHAUSTIVE = {"quick": False, "thorough": False}
CORRESPONDENCE_ONLY = ["dtype tags"]
ASSUMPTIONS = []

FUNCS = ["concat_rows", "concat_mixed", "concat_cols", "like", "nonzero", "where", "subset", "mask_index", "ragged_slice", "padded", "ragged_slice_nd"]


def _rand_mask(rng, lens):
    p = rng.choice([0.0, 0.3, 0.6, 1.0])
    return [[rng.random() < p for _ in range(l)] for l in lens]


def _windows(rng, lens, allow_none=True):
    ss, es = [], []
    for l in lens:
        s = rng.randint(0, l)
        e = rng.randint(s, l) if rng.random() < 0.7 else -rng.randint(0, max(0, l - s)) if l - s > 0 else rng.randint(s, l)
        if isinstance(e, int) and e <= 0 and l - s > 0 and e != 0:
            pass
        ss.append(s); es.append(e)
    # a negative end counts from the row end; 0 as an end means an empty window
    return ss, es


def cases(rng, tier):
    out = []
    shapes = gens.shapes_exhaustive(3, 3) if tier == "quick" else gens.shapes_exhaustive(4, 3)
    shapes = shapes + [gens.shape_random(rng, 10, 6) for _ in range(150 if tier == "quick" else 3000)]
    def dt():
        return rng.choice(gens.DTYPES)
    for lens in shapes:
        n = len(lens)
        vs = rng.randint(0, 9999)
        others = [rng.choice(shapes[:85]) for _ in range(rng.randint(0, 2))]
        out.append({"f": "concat_rows", "shapes": [lens] + others, "dtype": dt(), "vseed": vs})
        # operands of DIFFERENT dtypes: numpy promotes (int32 + int64 -> int64, int + float -> float, uint8 + int8 -> int16)
        oth = [rng.choice(shapes[:85]) for _ in range(rng.randint(1, 2))]
        out.append({"f": "concat_mixed", "shapes": [lens] + oth, "dtypes": [dt() for _ in range(len(oth) + 1)], "dtype": "int64", "vseed": vs})
        same_rows = [[rng.randint(0, 3) for _ in range(n)] for _ in range(rng.randint(0, 2))]
        out.append({"f": "concat_cols", "shapes": [lens] + same_rows, "dtype": dt(), "vseed": vs})
        out.append({"f": "like", "lens": lens, "which": rng.choice(["zeros", "ones", "empty"]), "dtype": dt(), "vseed": vs})
        out.append({"f": "nonzero", "lens": lens, "mask": _rand_mask(rng, lens), "dtype": rng.choice(["bool", "int64", "uint8", "float64"]), "vseed": vs})
        out.append({"f": "where", "lens": lens, "mask": _rand_mask(rng, lens), "y": rng.choice(["ragged", "scalar"]), "dtype": dt(), "vseed": vs})
        # the masking idiom np.where(mask, x, 0) on float cells with infinities / NaN also where the mask is False
        out.append({"f": "where", "lens": lens, "mask": _rand_mask(rng, lens), "y": "zero", "dtype": rng.choice(["float64", "float32", "float64", "int64"]), "vseed": vs})
        # x and y ragged with DIFFERENT dtypes: the result has numpy's promoted dtype, cell by cell
        out.append({"f": "where", "lens": lens, "mask": _rand_mask(rng, lens), "y": "ragged", "dtype": dt(), "ydtype": dt(), "vseed": vs})
        for f in ("subset", "mask_index"):
            out.append({"f": f, "lens": lens, "mask": _rand_mask(rng, lens), "dtype": dt(), "vseed": vs})
        # a mask OBJECT with a history: it selected once while it held another pattern, was then changed in place (&=, |=, ^=,
        # logical_not(out=), item assignment, fill) to the pattern of the case, and selects again
        out.append({"f": rng.choice(["subset", "mask_index", "mask_index"]), "lens": lens, "mask": _rand_mask(rng, lens), "dtype": dt(), "vseed": vs,
                    "mh": rng.choice(["iand", "ior", "ixor", "not_out", "setitem", "copyto"])})
        # the same functions on an operand that is a block of rows of a larger array
        emb = [[rng.randint(0, 3) for _ in range(rng.randint(1, 2))], [rng.randint(0, 3) for _ in range(rng.randint(0, 2))]]
        fe = rng.choice(["subset", "mask_index", "mask_index", "where", "padded", "ragged_slice", "like"])
        q = {"f": fe, "lens": lens, "mask": _rand_mask(rng, lens), "y": "scalar", "dtype": dt(), "vseed": vs, "embed": emb}
        if fe == "padded":
            q.update(side=rng.choice(["left", "right"]), fill=0, dtype="int64")
        elif fe == "ragged_slice":
            ss, es = _windows(rng, lens); q.update(starts=ss, ends=es)
        elif fe == "like":
            q.update(which=rng.choice(["zeros", "ones"]))
        out.append(q)
        for _ in range(2):
            ss, es = _windows(rng, lens)
            out.append({"f": "ragged_slice", "lens": lens, "starts": ss if rng.random() < 0.8 else None, "ends": es if rng.random() < 0.8 else None, "dtype": dt(), "vseed": vs})
        out.append({"f": "padded", "lens": lens, "side": rng.choice(["left", "right"]), "fill": rng.choice([0, 0, 7]), "dtype": rng.choice(["int64", "uint8", "float64", "int16"]), "vseed": vs})
    # exhaustive masks on small shapes
    for lens in gens.shapes_exhaustive(3, 2):
        tot = sum(lens)
        if tot > 6:
            continue
        for m in range(2 ** tot):
            bits = [bool((m >> i) & 1) for i in range(tot)]
            mask, k = [], 0
            for l in lens:
                mask.append(bits[k:k + l]); k += l
            out.append({"f": rng.choice(["subset", "mask_index", "nonzero", "where"]), "lens": lens, "mask": mask, "y": "scalar", "dtype": "int64", "vseed": 1})
    # 1-D / 2-D inputs of ragged_slice
    for _ in range(300 if tier == "quick" else 3000):
        if rng.random() < 0.5:
            n = rng.randint(1, 8); k = rng.randint(1, 4)
            ss = [rng.randint(0, n) for _ in range(k)]; es = [rng.randint(s, n) for s in ss]
            if rng.random() < 0.3:      # ends counted from the end of the array
                es = [e - n if e < n else e for e in es]
            out.append({"f": "ragged_slice_nd", "nd": 1, "n": n, "starts": ss, "ends": es, "dtype": dt(), "vseed": rng.randint(0, 99)})
        else:
            r, c = rng.randint(1, 4), rng.randint(1, 5)
            if rng.random() < 0.12:
                r, c = rng.choice([(rng.randint(1, 4), 0), (0, rng.randint(0, 3))])     # degenerate matrices: no column / no row
            ss = [rng.randint(0, c) for _ in range(r)]; es = [rng.randint(s, c) for s in ss]
            if rng.random() < 0.45:
                es = [e - c if e < c else e for e in es]
            out.append({"f": "ragged_slice_nd", "nd": 2, "r": r, "c": c, "starts": ss, "ends": es, "dtype": dt(), "vseed": rng.randint(0, 99),
                        "layout": rng.choice(["C", "C", "C", "F", "T", "strided"])})     # memory layout of the 2-D argument
    return out


def key(p):
    return engine.stable_hash({k: v for k, v in p.items() if k not in ("vseed", "dtype")})


def nontrivial(p):
    if "lens" in p:
        return sum(p["lens"]) > 0
    if "shapes" in p:
        return sum(sum(s) for s in p["shapes"]) > 0
    return True


def distribution(ps):
    d = gens.shape_stats([p["lens"] for p in ps if "lens" in p])
    d["functions"] = gens.hist(p["f"] for p in ps)
    d["masks_all_false"] = sum(1 for p in ps if "mask" in p and not any(any(r) for r in p["mask"]))
    d["empty_windows"] = sum(1 for p in ps if p["f"] == "ragged_slice" and p.get("starts") and p.get("ends") and any(s == e for s, e in zip(p["starts"], p["ends"])))
    return d


def _pool(p, n):
    return gens.cell_values(p["dtype"], n, random.Random(p["vseed"]))


def _rows_from(vals, lens):
    rows, k = [], 0
    for l in lens:
        rows.append(vals[k:k + l]); k += l
    return rows


def _ra(rows, dt):
    return {"k": "ra", "dt": str(np.dtype(dt)), "v": [engine._nest(np.asarray(r, dtype=dt).tolist()) for r in rows]}


def _setup(p):
    """(python-level structures) shared by impl and oracle"""
    f = p["f"]
    if f in ("concat_rows", "concat_cols"):
        tot = sum(sum(s) for s in p["shapes"])
        pool = _pool(p, tot)
        arrs, k = [], 0
        for s in p["shapes"]:
            arrs.append((pool[k:k + sum(s)], s)); k += sum(s)
        return arrs
    if f == "concat_mixed":
        return [(gens.cell_values(d, sum(sh), random.Random(p["vseed"] + 7 * i)), sh) for i, (sh, d) in enumerate(zip(p["shapes"], p["dtypes"]))]
    if f == "ragged_slice_nd":
        if p["nd"] == 1:
            return _pool(p, p["n"])
        return _pool(p, p["r"] * p["c"]).reshape(p["r"], p["c"])
    vals = _pool(p, sum(p["lens"]) * 2 + 2)
    if p.get("y") == "zero":
        vals = vals.copy()
        if vals.dtype.kind == "f":
            vals[: sum(p["lens"]) : 2] = np.array([np.inf, -np.inf, np.nan] * (len(vals) // 3 + 1), dtype=vals.dtype)[: len(vals[: sum(p["lens"]) : 2])]
        vals[2 * sum(p["lens"])] = 0
    return vals


def run_impl(p):
    from npstructures import RaggedArray, ragged_slice
    f = p["f"]
    def g():
        s = _setup(p)
        with np.errstate(all="ignore"), warnings.catch_warnings():
            warnings.simplefilter("ignore")
            if f in ("concat_rows", "concat_mixed"):
                return np.concatenate([RaggedArray(v.copy(), list(l)) for v, l in s])
            if f == "concat_cols":
                parts = [RaggedArray(v.copy(), list(l)) for v, l in s]
                # the column axis spelled -1 or 1, as keyword or positionally
                h = len(parts) + sum(len(l) for _, l in s) + sum(sum(l) for _, l in s)
                return [lambda: np.concatenate(parts, axis=-1), lambda: np.concatenate(parts, axis=1), lambda: np.concatenate(parts, -1), lambda: np.concatenate(parts, 1)][h % 4]()
            if f == "ragged_slice_nd":
                arg = s
                lay = p.get("layout", "C")
                if lay == "F":
                    arg = np.asfortranarray(s)
                elif lay == "T":
                    arg = s.T.copy().T
                elif lay == "strided":
                    arg = np.repeat(s, 2, axis=-1)[..., ::2]
                if lay == "C" and p["vseed"] % 2 == 0 and len(p["starts"]) > 0:
                    # the same windows through the indexing form of the array mixin: arr.view(NPSArray)[starts:ends]
                    from npstructures.mixin import NPSArray
                    return _twice(lambda ss, es: np.asarray(arg).view(NPSArray)[ss:es], np.array(p["starts"]), np.array(p["ends"]))
                return _twice(lambda ss, es: ragged_slice(arg, ss, es), np.array(p["starts"]), np.array(p["ends"]))
            n = sum(p["lens"])
            ra = RaggedArray(s[:n].copy(), list(p["lens"]))
            emb = p.get("embed")
            if emb:
                # the operand is a block of rows cut out of a LARGER array (rows with cells before and after it), not yet
                # looked at in any other way: a derived array must behave like a freshly built one
                pre, post = emb
                big = RaggedArray(np.concatenate([np.full(sum(pre), 77, dtype=s.dtype), s[:n], np.full(sum(post), 88, dtype=s.dtype)]),
                                  list(pre) + list(p["lens"]) + list(post))
                ra = big[len(pre):len(pre) + len(p["lens"])] if emb and (len(pre) + len(post)) % 2 == 0 else big[len(pre):len(big) - len(post)]
            if f == "like":
                r = getattr(np, p["which"] + "_like")(ra)
                if p["which"] == "empty":
                    return {"k": "obs", "lengths": canon([int(x) for x in r.lengths]), "dtype": canon(str(r.dtype))}
                return r
            if f in ("nonzero", "where", "subset", "mask_index"):
                mflat = np.array([b for row in p["mask"] for b in row], dtype=bool)
                if f == "nonzero":
                    arr = RaggedArray(mflat.astype(p["dtype"]), list(p["lens"]))
                    r = np.nonzero(arr) if p["vseed"] % 2 else arr.nonzero()
                    # numpy's nonzero returns platform integers (int64) whatever the library's index width is
                    return {"k": "obs", "idx": canon([[int(x) for x in r[0]], [int(x) for x in r[1]]]),
                            "index_dtypes": canon([str(np.asarray(r[0]).dtype), str(np.asarray(r[1]).dtype)])}
                m = RaggedArray(mflat, list(p["lens"]))
                if p.get("mh") and mflat.size:
                    m = _mask_with_history(p, ra, mflat)
                if f == "where":
                    y = RaggedArray(s[n:2 * n].copy(), list(p["lens"])) if p["y"] == "ragged" else (0 if (p["vseed"] % 2 or s.dtype.kind != "f") else 0.0) if p["y"] == "zero" else s[2 * n].item()
                    if "ydtype" in p:
                        y = RaggedArray(gens.cell_values(p["ydtype"], n, random.Random(p["vseed"] + 1)), list(p["lens"]))
                    return np.where(m, ra, y)
                res = ra.subset(m) if f == "subset" else ra[m]
                # the selection owns its cells: a write into the source afterwards leaves it as it was, and a write into the
                # selection leaves the source as it was (also when the mask keeps every cell)
                keep = canon(res)
                src_before = np.asarray(ra.ravel()).copy()
                if ra.size:
                    ra.fill(np.ones(1, dtype=ra.dtype)[0])
                    if canon(res) != keep:
                        raise engine.Inconsistent("a mask selection changed when its source was written to")
                    ra.ravel()[...] = src_before
                flat = res.ravel() if hasattr(res, "ravel") else res
                if isinstance(flat, np.ndarray) and flat.size and flat.flags.writeable:
                    flat[...] = np.zeros(1, dtype=flat.dtype)[0] if flat[0] != 0 else np.ones(1, dtype=flat.dtype)[0]
                    if np.asarray(ra.ravel()).tobytes() != src_before.tobytes():
                        raise engine.Inconsistent("writing into a mask selection changed its source")
                return keep
            if f == "ragged_slice":
                kw = {}
                if p["starts"] is not None:
                    kw["starts"] = np.array(p["starts"], dtype=int)
                if p["ends"] is not None:
                    kw["ends"] = np.array(p["ends"], dtype=int)
                return _twice(lambda ss, es: ragged_slice(ra, **{k: v for k, v in (("starts", ss), ("ends", es)) if v is not None}), kw.get("starts"), kw.get("ends"))
            if f == "padded":
                # the documented defaults (fill_value=0, side="right") are left to the library when the case asks for them
                kw = {}
                if not (p["fill"] == 0 and p["vseed"] % 2 == 0):
                    kw["fill_value"] = p["fill"]
                if not (p["side"] == "right" and p["vseed"] % 3 != 0):
                    kw["side"] = p["side"]
                return ra.as_padded_matrix(**kw)
    return guarded(g)


def _twice(call, ss, es):
    """the window bounds stay the caller's: the call leaves them as they were, and the same call with the same bound arrays
    gives the same windows again"""
    ss0 = None if ss is None else ss.copy(); es0 = None if es is None else es.copy()
    first = call(ss, es)
    keep = canon(first)
    for v, v0, name in ((ss, ss0, "starts"), (es, es0, "ends")):
        if v is not None and not np.array_equal(v, v0):
            raise engine.Inconsistent("ragged_slice changed the " + name + " array it was given")
    if canon(call(ss, es)) != keep:
        raise engine.Inconsistent("ragged_slice with the same bounds gave two different results")
    return first


def _mask_with_history(p, ra, mflat):
    """a mask object that held another pattern, selected with it, and was changed IN PLACE to the pattern mflat"""
    from npstructures import RaggedArray
    how = p["mh"]
    extra = np.array([(i * 7 + p["vseed"]) % 3 == 0 for i in range(mflat.size)], dtype=bool)
    lens = list(p["lens"])
    old = {"iand": mflat | extra, "ior": mflat & extra, "ixor": mflat ^ extra, "not_out": ~mflat}.get(how, extra)
    m = RaggedArray(old.copy(), lens)
    ra[m]; ra.subset(m)
    if how == "iand":
        m &= RaggedArray(mflat.copy(), lens)
    elif how == "ior":
        m |= RaggedArray(mflat.copy(), lens)
    elif how == "ixor":
        m ^= RaggedArray(extra.copy(), lens)
    elif how == "not_out":
        np.logical_not(m, out=m)
    elif how == "setitem":
        m[...] = RaggedArray(mflat.copy(), lens)
    else:
        m.ravel()[...] = mflat
    if np.asarray(m.ravel()).tolist() != mflat.tolist():
        raise engine.Inconsistent("the in-place change of the mask did not produce the intended pattern")
    return m


def _window(r, s, e):
    n = len(r)
    s = 0 if s is None else s
    if e is None:
        e = n
    elif e < 0:
        e = n + e
    else:
        e = min(e, n)
    return r[s:max(e, s)]


def oracle(p):
    f = p["f"]
    dt = np.dtype(p["dtype"])
    s = _setup(p)
    if f == "concat_rows":
        return _ra([r for v, l in s for r in _rows_from(v, l)], dt)
    if f == "concat_mixed":
        rdt = np.result_type(*[v.dtype for v, _ in s])
        with np.errstate(all="ignore"), warnings.catch_warnings():
            warnings.simplefilter("ignore")
            return _ra([r.astype(rdt) for v, l in s for r in _rows_from(v, l)], rdt)
    if f == "concat_cols":
        rs = [_rows_from(v, l) for v, l in s]
        n = min(len(r) for r in rs)
        return _ra([np.concatenate([r[i] for r in rs]) for i in range(n)], dt)
    if f == "ragged_slice_nd":
        if p["nd"] == 1:
            return _ra([s[a:b] for a, b in zip(p["starts"], p["ends"])], dt)
        return _ra([s[i][a:b] for i, (a, b) in enumerate(zip(p["starts"], p["ends"]))], dt)
    n = sum(p["lens"])
    rows = _rows_from(s[:n], p["lens"])
    if f == "like":
        if p["which"] == "empty":
            return {"k": "obs", "lengths": canon(list(p["lens"])), "dtype": canon(str(dt))}
        c = 0 if p["which"] == "zeros" else 1
        return _ra([np.full(len(r), c, dtype=dt) for r in rows], dt)
    if f == "nonzero":
        rc = [(i, j) for i, row in enumerate(p["mask"]) for j, b in enumerate(row) if b]
        return {"k": "obs", "idx": canon([[i for i, _ in rc], [j for _, j in rc]]), "index_dtypes": canon(["int64", "int64"])}
    if f == "where" and "ydtype" in p:
        yv = gens.cell_values(p["ydtype"], n, random.Random(p["vseed"] + 1))
        mflat = np.array([b for row in p["mask"] for b in row], dtype=bool)
        with np.errstate(all="ignore"), warnings.catch_warnings():
            warnings.simplefilter("ignore")
            flat = np.where(mflat, s[:n], yv)
        return _ra(_rows_from(flat, p["lens"]), flat.dtype)
    if f == "where":
        yrows = _rows_from(s[n:2 * n], p["lens"]) if p["y"] == "ragged" else None
        ysc = s[2 * n]
        res = [np.array([x if b else (yrows[i][j] if yrows is not None else ysc) for j, (x, b) in enumerate(zip(r, m))], dtype=dt)
               for i, (r, m) in enumerate(zip(rows, p["mask"]))]
        return _ra(res, dt)
    if f == "subset":
        return _ra([np.array([x for x, b in zip(r, m) if b], dtype=dt) for r, m in zip(rows, p["mask"])], dt)
    if f == "mask_index":
        return canon(np.array([x for r, m in zip(rows, p["mask"]) for x, b in zip(r, m) if b], dtype=dt))
    if f == "ragged_slice":
        ss = p["starts"] or [None] * len(rows)
        es = p["ends"] if p["ends"] is not None else [None] * len(rows)
        return _ra([_window(r, a, b) for r, a, b in zip(rows, ss, es)], dt)
    if f == "padded":
        w = max(p["lens"]) if p["lens"] else 0
        fill = np.array([p["fill"]], dtype=dt)[0]
        mat = []
        for r in rows:
            pad = [fill] * (w - len(r))
            mat.append(list(r) + pad if p["side"] == "right" else pad + list(r))
        return canon(np.array(mat, dtype=dt).reshape(len(rows), w))


def lean_request(p):
    f = p["f"]
    if f in ("concat_rows", "concat_cols"):
        arrs, k = [], 0
        for s in p["shapes"]:
            rows = []
            for l in s:
                rows.append(list(range(k, k + l))); k += l
            arrs.append(rows)
        return {"op": "C08.struct", "f": f, "arrays": arrs}
    if f == "ragged_slice_nd":
        if p["nd"] == 1:
            return {"op": "C08.struct", "f": "ragged_slice_1d", "a": list(range(p["n"])), "starts": p["starts"], "ends": p["ends"]}
        return {"op": "C08.struct", "f": "ragged_slice_2d", "rows": [list(range(i * p["c"], (i + 1) * p["c"])) for i in range(p["r"])],
                "c": p["c"], "starts": p["starts"], "ends": p["ends"]}
    if f == "concat_mixed" or (f == "like" and p["which"] == "empty"):
        return None
    rows = gens.rows_of_ids(p["lens"])
    n = sum(p["lens"])
    if f == "like":
        return {"op": "C08.struct", "f": "like", "rows": rows, "c": 0 if p["which"] == "zeros" else 1}
    if f == "nonzero":
        return {"op": "C08.struct", "f": "nonzero", "rows": p["mask"]}
    if f == "where" and "ydtype" in p:
        return None
    if f == "where":
        y = [[i + n for i in r] for r in rows] if p["y"] == "ragged" else 2 * n
        return {"op": "C08.struct", "f": "where", "mask": p["mask"], "x": rows, "y": y, "column": False}
    if f in ("subset", "mask_index"):
        return {"op": "C08.struct", "f": f, "rows": rows, "mask": p["mask"]}
    if f == "ragged_slice":
        return {"op": "C08.struct", "f": f, "rows": rows, "starts": p["starts"], "ends": p["ends"]}
    if f == "padded":
        return {"op": "C08.struct", "f": f, "rows": rows, "fill": -1, "side": p["side"]}


def decode_lean(p, resp):
    f = p["f"]
    dt = np.dtype(p["dtype"])
    s = _setup(p)
    if f in ("concat_rows", "concat_cols"):
        pool = np.concatenate([v for v, _ in s]) if s else np.array([], dtype=dt)
    elif f == "ragged_slice_nd":
        pool = np.asarray(s).reshape(-1)
    else:
        pool = s
    def conv(j):
        if isinstance(j, dict) and j.get("refuse"):
            return refuse()
        if f == "like":
            return _ra([np.array(r, dtype=dt) for r in j], dt)
        if f == "nonzero":
            return {"k": "obs", "idx": canon(j), "index_dtypes": canon(["int64", "int64"])}
        if f == "mask_index":
            return canon(np.array([pool[i] for i in j], dtype=dt))
        if f == "padded":
            fill = np.array([p["fill"]], dtype=dt)[0]
            w = max(p["lens"]) if p["lens"] else 0
            return canon(np.array([[fill if i < 0 else pool[i] for i in r] for r in j], dtype=dt).reshape(len(j), w))
        return _ra([np.array([pool[i] for i in r], dtype=dt) for r in j], dt)
    return conv(resp["L"]), conv(resp["S"])


same = engine.same_cells


def matches_finding(f, p, impl, expect):
    return False
