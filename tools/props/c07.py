"""C07 — row-wise scans and reorderings equal numpy applied to each row."""
import random, warnings
import numpy as np
import engine, gens
from engine import canon, guarded, refuse

ID = "C07"
LEVEL = "proof"
LEVEL_TEXT = ("Lean 4 theorems for every ragged shape (empty rows anywhere, rows of length 0/1, trailing empty rows): the models of "
              "cumsum (global cumsum minus per-row offsets), of add/subtract/xor.accumulate (global scan corrected by the inverse "
              "operation at row starts, with the clamped read for trailing empty rows), of sort (row-keyed stable lexsort), of unique "
              "with counts (change mask on the sorted buffer, cumsum of the mask, the last-element hack) and of n-th order diff "
              "(global diff gathered through shortened row views) equal the per-row prefix sums / accumulate / sorted row / sorted "
              "distinct values with multiplicities / n-th differences, with row count, order and empty rows preserved. Integers are "
              "modelled as unbounded Int (the theorems for add/sub use only commutative-group laws, so they transfer to wrapping "
              "fixed-width integers); dtypes, wrap-around, NaN ordering and floats are decided by the correspondence against numpy "
              "applied to each row.")
LEVEL_NOTE = ("Trusted: Lean kernel (+ standard axioms); hand models (tied by correspondence); the column broadcast used for the per-row "
              "offsets is C04's theorem; float accumulate (global scan minus offset is inexact) is known finding F07b, judged with an "
              "error bound relative to the global running sum; numpy's NaN ordering in sort.")
TECHNIQUE = "Lean 4 proof of global-scan tricks = per-row numpy semantics; numpy-evaluated correspondence"
DESIGN_REF = "7"
LEAN_MODULES = ["NpsVerif.Props.C07Scan", "NpsVerif.Props.C07Sort"]
KERNELS = ()
RULE = ("cases = ragged shape (exhaustive <=3 rows x <=3 cells + random up to 12 rows) x function (cumsum, add/subtract/xor.accumulate, "
        "sort, unique with/without counts, diff of order 1..4) x dtype x value pattern (small / duplicates / dtype extremes / NaN); "
        "distinct = distinct (lengths, function, dtype, values); non-trivial = at least one row with >= 2 cells")
EXHAUSTIVE = {"quick": False, "thorough": False}
CORRESPONDENCE_ONLY = ["wrap-around of cumsum beyond the int64 accumulator", "floats / NaN ordering", "result dtypes"]
ASSUMPTIONS = ["np.lexsort is stable"]

FUNCS = ["cumsum", "add", "subtract", "bitwise_xor", "sort", "unique", "unique_counts", "diff"]


def _dtypes_for(f):
    if f == "cumsum":
        return gens.INT_DTYPES
    if f == "bitwise_xor":
        return gens.INT_DTYPES + ["bool"]
    if f == "subtract":
        return gens.INT_DTYPES + ["float64", "float32"]
    return gens.DTYPES


def cases(rng, tier):
    out = []
    shapes = gens.shapes_exhaustive(3, 3) if tier == "quick" else gens.shapes_exhaustive(4, 3)
    shapes = shapes + [gens.shape_random(rng, 12, 7) for _ in range(200 if tier == "quick" else 3000)]
    for lens in shapes:
        for f in FUNCS:
            for _ in range(1 if tier == "quick" else 2):
                dt = rng.choice(_dtypes_for(f))
                p = {"lens": lens, "f": f, "dtype": dt, "vseed": rng.randint(0, 9999), "mode": rng.choice(["small", "small", "dup", "extreme", "dupx"])}
                if f == "diff":
                    p["n"] = rng.choice([1, 1, 2, 3, 4, 0])
                    p["nform"] = rng.choice(["int", "int", "uint8", "int64"])       # the order as a Python int or a numpy scalar
                out.append(p)
                if rng.random() < 0.3:
                    # the operand is itself the RESULT of a scan / sort / unique / diff (whose shape object the library built):
                    # a derived array must behave like a freshly built one
                    q = dict(p, pre=rng.choice(["unique", "unique", "counts", "sort", "diff1", "cumsum"]), vseed=rng.randint(0, 9999))
                    pre_f = {"counts": "unique_counts", "diff1": "diff"}.get(q["pre"], q["pre"])
                    if np.dtype(q["dtype"]).kind in "iub" and q["dtype"] in _dtypes_for(pre_f):
                        out.append(q)
                if f in ("sort", "unique", "unique_counts", "cumsum") and np.dtype(dt).kind == "i" and rng.random() < 0.4:
                    # the operand was sorted before and its cells were changed IN PLACE afterwards (negated, or overwritten through
                    # the flat view): whatever was known about the old cells no longer holds
                    out.append(dict(p, pre=rng.choice(["sort_neg", "sort_flat", "resort_neg", "resort_flat", "resort_row"]), vseed=rng.randint(0, 9999)))
    return out


def key(p):
    return engine.stable_hash([p["lens"], p["f"], p["dtype"], p["mode"], p.get("n"), p["vseed"] % 3, p.get("pre")])


def nontrivial(p):
    return any(l >= 2 for l in p["lens"])


def distribution(ps):
    d = gens.shape_stats([p["lens"] for p in ps])
    d["functions"] = gens.hist(p["f"] for p in ps)
    d["dtypes"] = gens.hist(p["dtype"] for p in ps)
    d["modes"] = gens.hist(p["mode"] for p in ps)
    d["trailing_empty_row"] = sum(1 for p in ps if p["lens"] and p["lens"][-1] == 0)
    return d


def _vals(p):
    rnd = random.Random(p["vseed"])
    n = sum(p["lens"])
    dt = np.dtype(p["dtype"])
    if p["mode"] == "witness-1e16":
        return np.array([1e16, 1., 1., 1., 1.], dtype=dt)[:n]
    if p["mode"] == "small" or dt.kind == "b":
        return gens.cell_values(p["dtype"], n, rnd, mode="small")
    if p["mode"] == "dup":
        if dt.kind == "f":
            return np.array([rnd.choice([1.5, -0.5, 2.0]) for _ in range(n)], dtype=dt)
        return np.array([rnd.choice([3, 1, 2]) for _ in range(n)], dtype=dt)
    if p["mode"] == "dupx":
        # repeated SPECIAL values: +-inf, NaN, dtype extremes (ties among extremes, inf - inf, wrap-around at the ends)
        pool = gens.cell_values(p["dtype"], 6, rnd, mode="distinct")
        if dt.kind == "f":
            pool = np.array([np.inf, -np.inf, 1.5, np.inf, -np.inf, 0.0], dtype=dt) if rnd.random() < 0.7 else pool
        k = rnd.randint(2, 4)
        return np.array([pool[rnd.randrange(k)] for _ in range(n)], dtype=dt)
    v = gens.cell_values(p["dtype"], max(n, 1), rnd, mode="distinct")[:n]
    return v


def _is_small_int(p):
    return np.dtype(p["dtype"]).kind in "iu" and p["mode"] in ("small", "dup")


def _apply(p, obj, is_ra):
    f = p["f"]
    ax = -1 if p["vseed"] % 3 else 1          # "along the rows" is axis -1 or, equivalently, axis 1
    with np.errstate(all="ignore"), warnings.catch_warnings():
        warnings.simplefilter("ignore")
        if f == "cumsum":
            return np.cumsum(obj, axis=ax) if is_ra else np.cumsum(obj)
        if f in ("add", "subtract", "bitwise_xor"):
            uf = getattr(np, f)
            return uf.accumulate(obj, axis=ax) if is_ra else uf.accumulate(obj)
        if f == "sort":
            if is_ra and p["vseed"] % 5 == 2:
                return obj.sort()           # the default axis of sort is the last one
            return obj.sort(axis=ax) if is_ra else np.sort(obj)
        if f == "unique":
            return np.unique(obj, axis=ax) if is_ra else np.unique(obj, equal_nan=False)
        if f == "unique_counts":
            return np.unique(obj, axis=ax, return_counts=True) if is_ra else np.unique(obj, return_counts=True, equal_nan=False)
        if f == "diff":
            n = p["n"] if (not is_ra or p.get("nform", "int") == "int") else np.dtype(p["nform"]).type(p["n"])
            if is_ra and p["vseed"] % 4 == 1:
                # numpy's own defaults and positional forms: np.diff(a, n) is along the last axis
                return [lambda: np.diff(obj, n), lambda: np.diff(obj, n=n), lambda: np.diff(obj, n, -1), lambda: np.diff(obj) if p["n"] == 1 else np.diff(obj, n)][(p["vseed"] // 4) % 4]()
            return np.diff(obj, n=n, axis=ax) if is_ra else np.diff(obj, n=p["n"])


def _pre(p, obj, is_ra):
    pre = p.get("pre")
    if pre is None:
        return obj
    with np.errstate(all="ignore"), warnings.catch_warnings():
        warnings.simplefilter("ignore")
        if pre == "unique":
            return np.unique(obj, axis=-1) if is_ra else np.unique(obj)
        if pre == "counts":
            return np.unique(obj, axis=-1, return_counts=True)[1] if is_ra else np.unique(obj, return_counts=True)[1]
        if pre == "sort":
            return obj.sort(axis=-1) if is_ra else np.sort(obj)
        if pre == "sort_neg":
            b = obj.sort(axis=-1) if is_ra else np.sort(obj)
            b *= -1
            return b
        if pre in ("resort_neg", "resort_flat", "resort_row"):
            # the operand ITSELF was sorted / de-duplicated before (results thrown away), then its cells were changed in place: by an
            # in-place operator, through the flat view, through a row view
            if is_ra:
                obj.sort(axis=-1); np.unique(obj, axis=-1)
                if pre == "resort_neg":
                    obj *= -1
                elif pre == "resort_flat":
                    flat = obj.ravel(); np.invert(flat, out=flat)
                else:
                    for i in range(len(obj)):
                        row = obj[i]
                        np.invert(row, out=row)
                return obj
            return -obj if pre == "resort_neg" else np.invert(obj)
        if pre == "sort_flat":
            b = obj.sort(axis=-1) if is_ra else np.sort(obj)
            flat = b.ravel() if is_ra else b
            np.invert(flat, out=flat)          # every cell replaced by its complement, through the flat view
            return b
        if pre == "diff1":
            return np.diff(obj, axis=-1) if is_ra else np.diff(obj)
        return np.cumsum(obj, axis=-1) if is_ra else np.cumsum(obj)


def run_impl(p):
    from npstructures import RaggedArray
    def f():
        vals = _vals(p)
        ra = _pre(p, RaggedArray(vals.copy(), list(p["lens"])), True)
        snap = (np.asarray(ra.ravel()).copy(), [int(x) for x in ra.lengths])
        res = _apply(p, ra, True)
        # the operand is unchanged (cells and row lengths), and the same call on it gives the same result again
        if np.asarray(ra.ravel()).tobytes() != snap[0].tobytes() or [int(x) for x in ra.lengths] != snap[1]:
            raise engine.Inconsistent("the operand of a scan / sort / unique / diff was modified")
        again = _apply(p, ra, True)
        if canon(again if not isinstance(again, tuple) else list(again)) != canon(res if not isinstance(res, tuple) else list(res)):
            raise engine.Inconsistent("the same call on the same operand gave another result")
        if isinstance(res, tuple):
            return {"k": "obs", "values": canon(res[0]), "counts": canon(res[1])}
        return {"k": "obs", "values": canon(res)}
    return guarded(f)


def _ra_canon(rows, dt):
    return {"k": "ra", "dt": str(dt), "v": [engine._nest(np.asarray(r).tolist()) for r in rows]}


def oracle(p):
    vals = _vals(p)
    rows, k = [], 0
    for l in p["lens"]:
        rows.append(vals[k:k + l]); k += l
    rows = [_pre(p, r, False) for r in rows]
    res = [_apply(p, r, False) for r in rows]
    probe = _apply(p, _pre(p, vals[:0], False), False)
    if p["f"] == "unique_counts":
        return {"k": "obs", "values": _ra_canon([r[0] for r in res], probe[0].dtype), "counts": _ra_canon([r[1] for r in res], np.dtype("int64"))}
    return {"k": "obs", "values": _ra_canon(res, probe.dtype)}


def lean_request(p):
    if not _is_small_int(p) or p.get("pre"):
        return None
    vals = _vals(p)
    rows, k = [], 0
    for l in p["lens"]:
        rows.append([int(x) for x in vals[k:k + l]]); k += l
    f = p["f"]
    if f == "subtract" and np.dtype(p["dtype"]).kind == "u":
        return None
    req = {"op": "C07.scan", "f": "unique" if f == "unique_counts" else f, "rows": rows}
    if f == "diff":
        if np.dtype(p["dtype"]).kind == "u":
            return None
        req["n"] = p["n"]
    return req


def decode_lean(p, resp):
    o = oracle(p)
    vdt = o["values"]["dt"]
    def conv(j):
        if isinstance(j, dict) and j.get("refuse"):
            return refuse()
        if p["f"] in ("unique", "unique_counts"):
            out = {"k": "obs", "values": _ra_canon([np.array(r, dtype=vdt) for r in j["values"]], vdt)}
            if p["f"] == "unique_counts":
                out["counts"] = _ra_canon([np.array(r, dtype="int64") for r in j["counts"]], "int64")
            return out
        return {"k": "obs", "values": _ra_canon([np.array(r, dtype=vdt) for r in j], vdt)}
    return conv(resp["L"]), conv(resp["S"])


def _norm(x):
    """-0.0 and 0.0 compare equal in numpy: which of the two a sort / unique keeps is not specified"""
    if isinstance(x, dict):
        return {k: _norm(v) for k, v in x.items()}
    if isinstance(x, list):
        return [_norm(v) for v in x]
    return "0x0.0p+0" if x == "-0x0.0p+0" else x


def same(a, b):
    if isinstance(a, dict) and isinstance(b, dict) and a.get("k") == "obs" and b.get("k") == "obs":
        ks = (set(a) & set(b)) - {"k"}
        def one(k):
            x, y = _norm(a[k]), _norm(b[k])
            empty = isinstance(x, dict) and x.get("k") == "ra" and all(len(r) == 0 for r in x["v"])
            return engine.same(x, y, dtype=not empty)      # an array without cells: the dtype is not judged
        return bool(ks) and all(one(k) for k in ks)
    return engine.same(a, b)


def _num(v):
    if isinstance(v, str):
        return float("nan") if v == "nan" else float.fromhex(v)
    return float(v)


def matches_finding(f, p, impl, expect):
    if f["id"] == "F07b":
        # float accumulate: global scan minus per-row offset; error bounded by eps * (global running magnitude)
        if np.dtype(p["dtype"]).kind != "f" or p["f"] not in ("add", "subtract"):
            return False
        try:
            iv, ev = impl["values"], expect["values"]
            if iv["dt"] != ev["dt"] or [len(r) for r in iv["v"]] != [len(r) for r in ev["v"]]:
                return False
            vals = _vals(p).astype(np.float64)
            scale = float(np.sum(np.abs(vals[np.isfinite(vals)]))) + 1.0
            fmax = 3e38 if p["dtype"] == "float32" else 1.7e308
            if not np.all(np.isfinite(vals)) or scale > fmax / 4:
                return True       # inf/nan in the buffer (or a global running sum that overflows) poisons every later row: same class
            eps = 1e-5 if p["dtype"] == "float32" else 1e-13
            for ri, re_ in zip(iv["v"], ev["v"]):
                for x, y in zip(ri, re_):
                    fx, fy = _num(x), _num(y)
                    if fx != fx and fy != fy:
                        continue
                    if abs(fx - fy) > eps * scale:
                        return False
            return True
        except Exception:
            return False
    return False
