"""C16 — arithmetic on run-length arrays equals arithmetic on the dense arrays."""
import warnings
import numpy as np
import engine, gens, rlgen
from engine import canon, guarded, refuse

ID = "C16"
LEVEL = "proof"
LEVEL_TEXT = ("Lean 4 theorems for every pair of valid run-length arrays of equal length with arbitrary, unrelated run boundaries and "
              "every binary function f (no algebraic laws assumed): the model of the boundary merge (two searchsorted look-ups, "
              "concatenation of boundary lists, stable merge sort, empty-run removal, run joining) decodes to zipWith f of the decoded "
              "operands and yields a valid, join-canonical array; unary / scalar ufuncs commute with decode; sum = Σ length·value "
              "equals the sum of the decoded integers; concatenation decodes to the concatenation; unequal lengths are refused. "
              "Tied to runlengtharray.py by correspondence over all pairs of arrays over 3 letters up to length 4 (all relative "
              "alignments: nested, interleaved, coincident) x ufuncs x dtype pairs x scalars, with numpy on the dense arrays as oracle.")
LEVEL_NOTE = ("Trusted: Lean kernel (+ standard axioms); hand model of _apply_binary_func/concatenate (tied by correspondence); numpy "
              "applies ufunc inner loops position-independently; float sum/mean (Σ length·value vs numpy's pairwise summation) differ in "
              "the last ulps -- known finding F16a, judged with a relative-error bound; histogram relies on numpy.histogram itself.")
TECHNIQUE = "Lean 4 proof of decode(f(x,y)) = zipWith f (decode x) (decode y) by induction over merged boundaries; correspondence"
DESIGN_REF = "7"
LEAN_MODULES = ["NpsVerif.Props.C16"]
KERNELS = ()
RULE = ("cases = pair of encoded arrays of equal length (all pairs over 3 letters up to length 3 quick / 4 thorough, + random long-run "
        "pairs, + unequal-length pairs) x ufunc (arithmetic/comparison/bitwise/logical) x dtype pair, plus scalar operands on either "
        "side, unary ufuncs, sum/any/all/max/mean/histogram, concatenate; distinct = distinct (classes, op, dtypes); "
        "non-trivial = length >= 2")
EXHAUSTIVE = {"quick": False, "thorough": False}
CORRESPONDENCE_ONLY = ["result dtype (numpy promotion)", "mean (float division)", "dtype of sum / histogram weights", "float operands"]
ASSUMPTIONS = ["numpy ufunc inner loops are position-independent"]

BIN = ["add", "subtract", "multiply", "maximum", "minimum", "less", "equal", "not_equal", "bitwise_and", "bitwise_or", "bitwise_xor"]
BIN_EXTRA = ["logical_and", "logical_or", "greater_equal", "floor_divide", "true_divide", "power"]
UNARY = ["negative", "abs", "invert", "logical_not", "sqrt", "square"]
RED = ["sum", "any", "all", "max", "mean", "np.sum", "np.any", "np.all", "np.mean", "histogram"]


def cases(rng, tier):
    out = []
    arrs = rlgen.arrays_exhaustive(3 if tier == "quick" else 4)
    by_len = {}
    for a in arrs:
        by_len.setdefault(len(a), []).append(a)
    for n, group in by_len.items():
        for a in group:
            for b in group:
                fs = rng.sample(BIN, 2 if tier == "quick" else 4)
                for f in fs:
                    out.append({"kind": "arrays", "a": a, "b": b, "f": f, "dta": "int64", "dtb": "int64"})
                if rng.random() < 0.3:
                    out.append({"kind": "arrays", "a": a, "b": b, "f": rng.choice(BIN + BIN_EXTRA),
                                "dta": rng.choice(gens.DTYPES), "dtb": rng.choice(gens.DTYPES)})
    for a in rlgen.arrays_exhaustive(4):
        for f in rng.sample(BIN, 2):
            out.append({"kind": rng.choice(["scalar_left", "scalar_right"]), "a": a, "f": f, "c": rng.randint(0, 3), "dta": "int64"})
        out.append({"kind": "scalar_right", "a": a, "f": rng.choice(BIN + BIN_EXTRA), "c": rng.choice([0, 1, 2, 3]), "dta": rng.choice(gens.DTYPES)})
        out.append({"kind": "scalar_left", "a": a, "f": rng.choice(BIN + BIN_EXTRA), "c": rng.choice([1, 2, 3]), "dta": rng.choice(gens.DTYPES)})
        out.append({"kind": rng.choice(["scalar_left", "scalar_right"]), "a": a, "f": rng.choice(BIN + BIN_EXTRA), "c": rng.choice([0, 1, 2, 3]), "dta": rng.choice(gens.DTYPES),
                    "cform": rng.choice(["int8", "int64", "uint8", "float32", "float64", "uint64", "bool", "int16"])})     # (np.isscalar: typed numpy scalars, not 0-d arrays)
        out.append({"kind": "unary", "a": a, "f": rng.choice(UNARY), "dta": rng.choice(gens.DTYPES), "predecode": rng.random() < 0.5})
        # sign-sensitive unary ufuncs over runs of +0.0 / -0.0 / infinities (equal values with different signs are different inputs)
        out.append({"kind": "unary", "a": a, "f": rng.choice(["reciprocal", "signbit", "sign", "negative", "sqrt", "abs"]), "dta": rng.choice(["float64", "float32"]), "vm": rng.choice(["zeros", "zeros", "inf"])})
        out.append({"kind": rng.choice(["scalar_left", "scalar_right"]), "a": a, "f": rng.choice(BIN), "c": rng.randint(1, 3), "dta": rng.choice(["int64", "float64", "uint8"]), "predecode": True})
        for red in rng.sample(RED, 3):
            out.append({"kind": "reduce", "a": a, "f": red, "dta": rng.choice(gens.DTYPES)})
        out.append({"kind": "reduce", "a": a, "f": "histogram", "dta": rng.choice(["int64", "uint8", "float64", "int16"]),
                    "hist": {"bins": rng.choice([1, 2, 3, 5, None, None, [0, 1, 2], [0.5, 1.5], [0, 1, 3], [1, 2]]), "range": rng.choice([None, None, [0, 1], [1, 2], [0.5, 2.2], [0, 4], [-1, 1]]), "density": rng.random() < 0.3}})
        # reductions over NEIGHBOURING extreme values (2**63-2, 2**63-1, ...): sums that leave the 64-bit range, means of huge values
        out.append({"kind": "reduce", "a": a, "f": rng.choice(["sum", "mean", "max", "np.sum", "np.mean"]), "dta": rng.choice(["int64", "uint64", "int32", "uint8", "float64"]), "vm": "near"})
        out.append({"kind": "sum", "a": a, "dta": "int64"})
        # reductions over the dtype's special values: NaN / inf / -0.0 runs (max must propagate NaN as numpy does), integer extremes
        out.append({"kind": "reduce", "a": a, "f": rng.choice(["max", "max", "any", "all", "sum", "mean", "np.any", "np.all"]),
                    "dta": rng.choice(["float64", "float32", "float64", "int8", "uint64", "bool"]), "vm": rng.choice([False, False, "inf", "zeros"])})
        # a reduction of a DERIVED array: a scalar comparison / concatenation keeps the operand's run boundaries, so neighbouring
        # runs of the result may hold equal values
        out.append({"kind": "reduce", "a": a, "f": rng.choice(["any", "all", "max", "sum", "np.any", "np.all"]), "dta": rng.choice(["int64", "uint8", "float64"]),
                    "derive": rng.choice(["gt", "ne", "le", "concat"]), "t": rng.choice([-1, 0, 1, 2, 3])})
    # +0.0 and -0.0 (and the two infinities) in DIFFERENT runs, separated by another value, under sign-sensitive unary ufuncs
    for a in ([0, 2, 1], [1, 2, 0], [0, 0, 2, 1, 1], [1, 2, 2, 0], [0, 2, 1, 2, 0], [1, 1, 2, 0, 0, 2, 1]):
        for f in ("reciprocal", "signbit", "sign", "negative", "sqrt", "abs", "square"):
            out.append({"kind": "unary", "a": a, "f": f, "dta": rng.choice(["float64", "float32"]), "vm": rng.choice(["zeros", "zeros", "inf"])})
    # LONG operands (lengths around 2**8 / 2**16, a few long runs whose boundaries differ between the operands)
    for L in ([257, 65537, 70001] if tier == "quick" else [255, 256, 257, 65535, 65536, 65537, 70001, 131073]):
        def longarr():
            cuts = sorted({c for c in (rng.choice([1, 255, 256, 65535, 65536, 65537, L - 1, rng.randint(1, L)]) for _ in range(3)) if 0 < c < L})
            a, prev, cls = [], 0, rng.randrange(3)
            for c in cuts + [L]:
                a += [cls] * (c - prev); prev = c; cls = (cls + rng.choice([1, 2])) % 3
            return a
        a, b = longarr(), longarr()
        out.append({"kind": "arrays", "a": a, "b": b, "f": rng.choice(["add", "maximum", "equal", "multiply"]), "dta": "int32", "dtb": "int32", "long": True})
        out.append({"kind": "scalar_right", "a": a, "f": "add", "c": 1, "dta": "int16", "long": True})
        out.append({"kind": "reduce", "a": a, "f": rng.choice(["sum", "max", "any", "mean"]), "dta": "uint8", "long": True})
        out.append({"kind": "concat", "parts": [a[:300], b[:65600] if L > 65600 else b[:200]], "dta": "int64", "long": True})
    # MIXED dtype pairs over large / neighbouring / extreme values (int64 against uint64 beyond 2**53, 32-bit against 64-bit, floats
    # against integers): numpy's own loop for the pair on the decoded arrays is the reference
    PAIRS = [("int64", "uint64"), ("uint64", "int64"), ("int64", "float64"), ("float64", "uint64"), ("int32", "uint32"), ("uint8", "int8"),
             ("int64", "int64"), ("uint64", "uint64"), ("float32", "int32"), ("int16", "uint64"), ("float64", "float32"), ("int64", "uint64"), ("uint64", "int64")]
    for _ in range(600 if tier == "quick" else 8000):
        n = rng.randint(1, 10)
        a = (rlgen.array_random(rng, n) + [0] * n)[:n]; b = (rlgen.array_random(rng, n) + [1] * n)[:n]
        dta, dtb = rng.choice(PAIRS)
        out.append({"kind": "arrays", "a": a, "b": b, "f": rng.choice(BIN + ["greater", "less_equal", "greater_equal", "equal", "less", "not_equal"]),
                    "dta": dta, "dtb": dtb, "vm": rng.choice(["near", "near", False, True]), "vmb": rng.choice(["near", "near", False, True])})
    for _ in range(400 if tier == "quick" else 6000):
        n = rng.randint(1, 30)
        a = rlgen.array_random(rng, n)[:n]; a = (a + [0] * n)[:n]
        b = rlgen.array_random(rng, n)[:n]; b = (b + [1] * n)[:n]
        out.append({"kind": "arrays", "a": a, "b": b, "f": rng.choice(BIN), "dta": "int64", "dtb": "int64"})
        if rng.random() < 0.4:
            # the augmented-assignment form (x += y, x *= y, ...): afterwards x IS the result and y is untouched
            out.append({"kind": "arrays", "a": a, "b": b, "f": rng.choice(["add", "subtract", "multiply", "bitwise_and", "bitwise_or", "bitwise_xor"]), "dta": "int64", "dtb": "int64", "iop": True})
        if rng.random() < 0.5:
            out.append({"kind": "arrays", "a": a, "b": b, "f": rng.choice(BIN), "dta": rng.choice(["int64", "int32", "uint32"]), "dtb": "int64", "split": True})
        if rng.random() < 0.15:
            out.append({"kind": "arrays", "a": a, "b": b + [0], "f": "add", "dta": "int64", "dtb": "int64"})
        if rng.random() < 0.3:
            k = rng.randint(1, 4)
            parts = [rlgen.array_random(rng, 8) for _ in range(k)]
            out.append({"kind": "concat", "parts": parts, "dta": rng.choice(["int64", "int64", "uint8", "float64", "bool"])})
            if k >= 2:
                out.append({"kind": "concat", "parts": parts, "dta": "int64", "pdts": [rng.choice(["int8", "uint8", "bool", "int64", "float64", "int32", "float32"]) for _ in parts]})
        if rng.random() < 0.3:
            out.append({"kind": "reduce", "a": a, "f": rng.choice(RED), "dta": rng.choice(gens.DTYPES)})
    return out


def _derive_rl(p, x, np_):
    """the same derivation on a RunLengthArray (implementation) or on the dense array (reference)"""
    d, t = p["derive"], p["t"]
    if d == "gt":
        return x > t
    if d == "ne":
        return x != t
    if d == "le":
        return x <= t
    return np_.concatenate([x, x])


def key(p):
    return engine.stable_hash(p)


def nontrivial(p):
    return len(p.get("a", p.get("parts", [[0, 0]])[0])) >= 2


def distribution(ps):
    d = rlgen.rl_distribution([p["a"] for p in ps if "a" in p])
    d["kinds"] = gens.hist(p["kind"] for p in ps)
    d["ufuncs"] = gens.hist(p.get("f") for p in ps)
    def align(p):
        if p["kind"] != "arrays" or len(p["a"]) != len(p["b"]):
            return "n/a"
        ba = {i for i in range(1, len(p["a"])) if p["a"][i] != p["a"][i - 1]}
        bb = {i for i in range(1, len(p["b"])) if p["b"][i] != p["b"][i - 1]}
        if not ba or not bb:
            return "one-constant"
        if ba == bb:
            return "coincident"
        if ba & bb:
            return "partly-coincident"
        return "interleaved"
    d["boundary_alignment"] = gens.hist(align(p) for p in ps)
    return d


def _axform(p):
    """how a reduction of the (one-dimensional) array spells its axis: not at all, axis=-1, axis=0, or positionally"""
    v = (len(p["a"]) + sum(p["a"]) + len(p.get("f", ""))) % 4
    return [((), {}), ((), {"axis": -1}), ((), {"axis": 0}), ((-1,), {})][v]


def _hist_kw(p):
    """bins and range of a histogram case: the default of the first rounds, or bins / explicit edges / a range that leaves
    part of the data outside on either side"""
    h = p.get("hist")
    if not h:
        return {"bins": 3, "range": (0, 3)}
    kw = {"bins": h["bins"]} if h["bins"] is not None else {}      # (None: numpy's default number of bins)
    if h.get("range") is not None:
        kw["range"] = tuple(h["range"])
    if h.get("density"):
        kw["density"] = True
    return kw


def _c(p):
    """the scalar operand: a Python number, or (cform) a TYPED numpy scalar / 0-d array -- numpy promotes those differently"""
    cf = p.get("cform")
    if not cf:
        return p["c"]
    v = np.dtype(cf.split(":")[0]).type(p["c"])
    return np.array(v) if cf.endswith(":0d") else v


def _asheld(a):
    """the operand AS THE ENCODING HOLDS IT (the property speaks of the decoded operands): a run holds equal cells, so a cell that
    compares equal to its left neighbour (-0.0 after +0.0) is held with the neighbour's bit pattern"""
    if a.dtype.kind != "f" or len(a) < 2:
        return a
    out = a.copy()
    for i in range(1, len(a)):
        if a[i] == out[i - 1]:
            out[i] = out[i - 1]
    return out


def _pvals(p, i):
    """the i-th piece of a concatenation: all pieces of one element type, or (pdts) each of its own -- later pieces then hold values
    the first type cannot (numpy promotes)"""
    if "pdts" not in p:
        return _vals(p["parts"][i], p["dta"])
    dt = p["pdts"][i]
    v = _vals(p["parts"][i], "int64").astype(np.float64) + {"int64": 1000, "float64": 0.5, "int32": 300, "float32": 0.25}.get(dt, 0)
    return v.astype(dt)


def _vals(classes, dt, mode=True):
    return rlgen.to_values(classes, dt, small=mode)


def _z(x):
    """a run holds EQUAL neighbouring cells and +0.0 == -0.0: the sign of a zero cell is not representable in a run-length array
    (C14 makes the same reading of 'equal'), so decoded float results are compared with zeros of either sign identified"""
    x = np.asarray(x)
    return np.where(x == 0, np.zeros(1, dtype=x.dtype)[0], x) if x.dtype.kind == "f" else x


def _rl(r, joined):
    from npstructures import RunLengthArray
    if not isinstance(r, RunLengthArray):
        return canon(r)
    o = {"k": "obs"}
    o["decoded"] = guarded(lambda: _z(r.to_array()))
    o["canonical"] = guarded(lambda: rlgen.canonical_info(r, joined))
    return o


def run_impl(p):
    from npstructures import RunLengthArray
    k = p["kind"]
    def f():
        with np.errstate(all="ignore"):
            if k == "concat":
                rs = [RunLengthArray.from_array(_pvals(p, i)) for i in range(len(p["parts"]))]
                return _rl(np.concatenate(rs), False)
            x = RunLengthArray.from_array(_vals(p["a"], p["dta"], p.get("vm", True)))
            xe, xv = x._events.copy(), np.asarray(x._values).copy()
            if k == "sum":
                return int(x.sum())
            if k == "reduce" and "derive" in p:
                x = _derive_rl(p, x, np)
            if k == "reduce":
                fn = p["f"]
                if fn == "histogram":
                    h, e = np.histogram(x, **_hist_kw(p))
                    return (h, e)
                ax = _axform(p)
                if fn.startswith("np."):
                    return getattr(np, fn[3:])(x, *ax[0], **ax[1])
                return getattr(x, fn)(**ax[1]) if not ax[0] else getattr(x, fn)(axis=ax[0][0])
            uf = getattr(np, p["f"])
            if p.get("predecode"):
                # the operand has been decoded / printed before the operation
                x.to_array(); np.asarray(x); str(x)
            if k == "unary":
                res = uf(x)
            elif k == "scalar_right":
                res = uf(x, _c(p))
            elif k == "scalar_left":
                res = uf(_c(p), x)
            else:
                y = RunLengthArray.from_array(_vals(p["b"], p["dtb"], p.get("vmb", True)))
                if p.get("split") and np.dtype(p["dta"]).kind in "iu" and np.dtype(p["dta"]).itemsize >= 4:
                    # the first operand is itself a RESULT (a scalar ufunc keeps the run boundaries of ITS operand): neighbouring runs
                    # hold equal values; it must behave like the freshly encoded array, and still decode to the same cells afterwards
                    dense = _vals(p["a"], p["dta"], p.get("vm", True)).astype(np.int64)
                    if np.all(np.abs(dense) < 2 ** 40):
                        par = (np.arange(len(dense)) // 2) % 2
                        x = (RunLengthArray.from_array(dense * 2 + par) // 2).astype(p["dta"])
                        xe, xv = x._events.copy(), np.asarray(x._values).copy()
                        if not np.array_equal(x.to_array(), dense.astype(p["dta"])):
                            raise engine.Inconsistent("harness: derived operand does not decode to the intended cells")
                if p.get("iop"):
                    import operator
                    ye, yv = y._events.copy(), np.asarray(y._values).copy()
                    res = getattr(operator, {"add": "iadd", "subtract": "isub", "multiply": "imul", "bitwise_and": "iand", "bitwise_or": "ior", "bitwise_xor": "ixor"}[p["f"]])(x, y)
                    if not (np.array_equal(y._events, ye) and np.array_equal(np.asarray(y._values), yv) and np.array_equal(y.to_array(), _vals(p["b"], p["dtb"], p.get("vmb", True)))):
                        raise engine.Inconsistent("the right operand of an augmented assignment changed")
                    if len(res) != len(p["a"]) or int(res.size) != len(p["a"]):
                        raise engine.Inconsistent("the result of an augmented assignment reports another length than its cells")
                    x = RunLengthArray.from_array(_vals(p["a"], p["dta"], p.get("vm", True)))       # (x itself may legitimately be the result now)
                else:
                    res = uf(x, y)
                if p.get("split"):
                    again = x.to_array()
                    if not np.array_equal(again, _vals(p["a"], p["dta"], p.get("vm", True))):
                        raise engine.Inconsistent("an operand decodes to other cells after the operation")
            o = _rl(res, joined=(k == "arrays"))
            if isinstance(o, dict) and o.get("k") == "obs":
                o["operand_unmodified"] = canon(bool(np.array_equal(x._events, xe) and np.array_equal(np.asarray(x._values), xv, equal_nan=(xv.dtype.kind == "f"))))
            return o
    return guarded(f)


def oracle(p):
    k = p["kind"]
    try:
        with np.errstate(all="ignore"), warnings.catch_warnings():
            warnings.simplefilter("ignore")
            if k == "concat":
                return {"k": "obs", "decoded": canon(_z(np.concatenate([_pvals(p, i) for i in range(len(p["parts"]))]))), "canonical": canon(True)}
            a = _asheld(_vals(p["a"], p["dta"], p.get("vm", True)))
            if k == "sum":
                return canon(int(a.sum()))
            if k == "reduce" and "derive" in p:
                a = _derive_rl(p, a, np)
            if k == "reduce":
                fn = p["f"]
                if fn == "histogram":
                    return canon(np.histogram(a, **_hist_kw(p)))
                if fn.startswith("np."):
                    return canon(getattr(np, fn[3:])(a))
                return canon(getattr(a, fn)())
            uf = getattr(np, p["f"])
            if k == "unary":
                res = uf(a)
            elif k == "scalar_right":
                res = uf(a, _c(p))
            elif k == "scalar_left":
                res = uf(_c(p), a)
            else:
                b = _asheld(_vals(p["b"], p["dtb"], p.get("vmb", True)))
                if len(a) != len(b):
                    return refuse()
                res = uf(a, b)
            return {"k": "obs", "decoded": canon(_z(res)), "canonical": canon(True), "operand_unmodified": canon(True)}
    except Exception:
        return refuse()


def lean_request(p):
    k = p["kind"]
    if p.get("long"):
        return None
    if p.get("dta") != "int64" or p.get("dtb", "int64") != "int64":
        return None
    if p.get("vm", True) is not True or p.get("vmb", True) is not True or p.get("cform") or p.get("iop"):
        return None
    if k == "arrays" and p["f"] in BIN:
        return {"op": "RL.binop", "kind": "arrays", "a": p["a"], "b": p["b"], "f": p["f"]}
    if k in ("scalar_left", "scalar_right") and p["f"] in BIN:
        return {"op": "RL.binop", "kind": k, "a": p["a"], "c": p["c"], "f": p["f"]}
    if k == "sum":
        return {"op": "RL.binop", "kind": "sum", "a": p["a"], "f": "add"}
    if k == "reduce" and p["f"] == "histogram" and not p.get("hist"):
        return {"op": "RL.binop", "kind": "hist", "a": p["a"], "f": "add"}
    if k == "concat" and "pdts" not in p:
        return {"op": "RL.binop", "kind": "concat", "a": [], "parts": p["parts"], "f": "add"}
    return None


def decode_lean(p, resp):
    bool_out = p.get("f") in ("less", "equal", "not_equal")
    def conv(j):
        if isinstance(j, dict) and j.get("refuse"):
            return refuse()
        if p["kind"] == "sum":
            return canon(int(j))
        if p["kind"] == "reduce":       # histogram with one bin per letter 0, 1, 2
            return canon((np.array(j, dtype=np.int64), np.array([0.0, 1.0, 2.0, 3.0])))
        arr = np.array(j["decoded"], dtype=np.int64)
        if bool_out:
            arr = arr.astype(bool)
        return {"k": "obs", "decoded": canon(arr), "canonical": canon(bool(j["valid"]))}
    return conv(resp["L"]), conv(resp["S"])


def _close(a, b, tol=1e-9):
    """float reductions: Σ length·value vs numpy's summation (finding F16a) are compared up to 1e-9 relative"""
    try:
        if a.get("k") in ("sc", "py") and b.get("k") in ("sc", "py"):
            fa = float.fromhex(a["v"]) if isinstance(a["v"], str) and a["v"] != "nan" else float(a["v"])
            fb = float.fromhex(b["v"]) if isinstance(b["v"], str) and b["v"] != "nan" else float(b["v"])
            if fa != fa and fb != fb:
                return True
            if fa == fb:
                return True
            return abs(fa - fb) <= tol * max(abs(fa), abs(fb))
    except Exception:
        return False
    return False


def _num(v):
    if isinstance(v, str):
        return float("nan") if v == "nan" else float.fromhex(v)
    return v


def same(a, b):
    # reductions: value equality, whatever the scalar type / dtype (the property says "equal numpy's")
    if isinstance(a, dict) and isinstance(b, dict) and a.get("k") in ("sc", "py") and b.get("k") in ("sc", "py"):
        x, y = _num(a["v"]), _num(b["v"])
        return x == y or (x != x and y != y)
    if isinstance(a, dict) and isinstance(b, dict) and a.get("k") == "tup" and b.get("k") == "tup":
        def eqn(u, v):
            return u == v or (u != u and v != v)          # (a density over no sample is NaN on both sides)
        return len(a["v"]) == len(b["v"]) and all(
            len(x["v"]) == len(y["v"]) and all(eqn(_num(u), _num(v)) for u, v in zip(x["v"], y["v"])) for x, y in zip(a["v"], b["v"]))
    if isinstance(a, dict) and isinstance(b, dict) and a.get("k") == "obs" and b.get("k") == "obs":
        ks = (set(a) & set(b)) - {"k"}
        return bool(ks) and all(engine.same(a[k], b[k]) for k in ks)
    return engine.same(a, b)


def matches_finding(f, p, impl, expect):
    if f["id"] == "F16a":
        return p["kind"] == "reduce" and p["f"] in ("sum", "mean", "np.sum", "np.mean") and np.dtype(p["dta"]).kind == "f" and _close(impl, expect, 1e-6 if p["dta"] == "float32" else 1e-12)
    return False
