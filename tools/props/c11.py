"""C11 — HashTable is a dictionary over a fixed set of integer keys."""
import random
import numpy as np
import engine, gens, htgen
from engine import canon, guarded, refuse

ID = "C11"
LEVEL = "proof"
LEVEL_TEXT = ("Lean 4 theorems for every set of distinct integer keys (any sign / magnitude), every modulus >= 1 (incl. all keys "
              "colliding) and EVERY permutation the unstable argsort may return: the bucket structure built by the constructor holds, "
              "in bucket h, exactly the keys whose hash is h, each once (invariant preserved by every operation), and for every finite "
              "history of vector lookups, single lookups of present keys, scalar / per-key assignments, fill, contains and items the "
              "observation trace of the model equals that of a plain dictionary: lookups return the most recently assigned value in "
              "query order, a vector containing an absent key is refused, assignments change the assigned keys only, the key set never "
              "changes. The whole-table functions act on the table's (key, value) list key by key: zeros_like / ones_like give the same "
              "keys with one value, += number adds it to every value, + / += of two tables over the same key rows adds values key by "
              "key and is refused for different key rows, == holds exactly when the (key, value) lists are equal (C11_like, C11_add_num, "
              "C11_add_table, C11_table_eq). The hash kernel is re-generated from /repo's source on every run and bridged. Tied to hashtable.py by "
              "correspondence over key sets x dtypes x moduli x histories with a malformed stream (absent keys that collide with a "
              "bucket / hit an empty bucket).")
LEVEL_NOTE = ("Trusted: Lean kernel (+ standard axioms); kernel translator (K10); the model is written against the list-of-rows meaning of "
              "the RaggedArray operations HashTable uses (C02/C03/C04/C08 theorems) and tied by correspondence; value dtypes of the whole-table functions and addition of "
              "tables built from the same keys in another order (refusing is legitimate) are correspondence-only; a single lookup of an ABSENT key is unspecified by the property (the "
              "library returns the shared scalar or an empty array) and not judged.")
TECHNIQUE = "Lean 4 refinement proof (induction over the history) to a dictionary; kernel K10 from source; correspondence"
DESIGN_REF = "7"
LEAN_MODULES = ["NpsVerif.Props.C11", "NpsVerif.Props.C11B"]
KERNELS = ("ht_hash", "ht_mod")
RULE = ("cases = key set (1..48 distinct keys: small / colliding / negative / +-2**62 / dtype extremes) x key dtype x modulus (None, 1, 2, 3, "
        "7, n, 2n-1, 1000) x initial values (per-key array / scalar) x history of 1..8 operations (vector & single lookup, scalar & "
        "per-key assignment, fill, contains, HashSet.contains (vector and scalar), items / to_dict, zeros_like, ones_like and writes into "
        "their results, +, += number / table, == incl. large and nearly equal values) with ~25% malformed "
        "queries; on narrow key dtypes a third of the cases query with int64 arrays incl. absent keys congruent to a present key "
        "modulo 2**bits; crowded buckets on narrow key dtypes (130..256 keys of an 8-bit dtype, 300..700 of a 16-bit one, modulus 1 / 2 / 3 / default); tables born with one shared integer value are also filled with a fraction and read before and after the first per-key write; distinct = distinct (keys, mod, history); non-trivial = >= 2 keys and >= 2 operations")
EXHAUSTIVE = {"quick": False, "thorough": False}
CORRESPONDENCE_ONLY = ["value dtypes", "+ of tables built from the same keys in another order"]
ASSUMPTIONS = ["keys handed to the constructor are distinct (the library's documented precondition)"]


def _history(rng, keys, absent, n_ops, lo=-9, lo_hi=None):
    ops = []
    for _ in range(n_ops):
        t = rng.choice(["getvec", "getvec", "get1", "setscalar", "seteach", "fill", "contains", "items", "hs_contains", "zeros_like", "ones_like", "add_self", "eq_self", "eq_other", "add_perm", "eq_big", "like_set", "hs_contains1", "iadd_num", "iadd_table", "acc_like", "eq_keys", "add_const"])
        if t == "add_const":
            # t' + c or c + t' where c is a never-written table holding one shared (possibly fractional) value over the same keys and
            # t' is the table itself, zeros_like(t) or ones_like(t): a NEW table whose values are the sums, read back in three ways
            ops.append({"t": t, "left": rng.choice(["self", "zeros", "ones"]), "order": rng.choice(["tc", "ct"]), "c": rng.choice([0.5, 2, 1.5, 3, 0.25, 7])})
        elif t == "eq_keys":
            # == against a table with the same values and the same bucket layout in which ONE key is another key of the same bucket
            ops.append({"t": t, "i": rng.randrange(len(keys))})
        elif t == "acc_like":
            # the accumulator idiom: acc = zeros_like(t); acc += t; then a write into acc (some keys / fill / += again); acc holds what
            # the dictionary says and t -- the table that was ADDED -- is unchanged
            sub = rng.sample(keys, rng.randint(1, len(keys)))
            ops.append({"t": t, "like": rng.choice(["zeros", "ones"]), "how": rng.choice(["set", "fill", "iadd", "set"]),
                        "ks": [rng.choice(sub) for _ in range(rng.randint(1, 3))], "x": rng.randint(max(lo, 2), 99)})
        elif t == "getvec":
            ops.append({"t": t, "ks": htgen.queries(rng, keys, absent)})
        elif t == "get1":
            ops.append({"t": t, "k": rng.choice(keys)})
        elif t == "setscalar":
            ks = htgen.queries(rng, keys, absent)
            if len(keys) >= 2 and rng.random() < 0.3:
                # exactly as many positions as the table has keys, but with repeats: some key is left out
                sub = rng.sample(keys, rng.randint(1, len(keys) - 1))
                ks = [rng.choice(sub) for _ in keys]
            ops.append({"t": t, "ks": ks, "x": rng.randint(lo, 99)})
            if rng.random() < 0.5:
                ops.append({"t": "items"})
        elif t == "hs_contains1":
            ops.append({"t": t, "k": rng.choice(keys + [a for a in absent[:6] if lo_hi is None or lo_hi[0] <= a <= lo_hi[1]][:3])})   # one key as a Python integer (representable in the key dtype)
        elif t == "iadd_num":
            ops.append({"t": t, "x": rng.randint(0, 9)})                                       # t += number
        elif t == "iadd_table":
            ops.append({"t": t, "xs": [rng.randint(0, 50) for _ in keys], "scalar": rng.random() < 0.3})   # t += table over the same keys
        elif t == "like_set":
            # a write into the result of zeros_like / ones_like (a fresh table with one shared value), then its contents; the
            # source table must not change
            sub = rng.sample(keys, rng.randint(1, max(1, len(keys) - 1)))
            ks = [rng.choice(sub) for _ in range(rng.choice([1, 2, len(keys), len(keys)]))]
            ops.append({"t": t, "like": rng.choice(["zeros", "ones"]), "ks": ks, "x": rng.randint(max(lo, 2), 99)})
        elif t == "eq_big":
            # == of two tables over the same keys whose (large, or nearly equal float) values differ for ONE key / for none
            ops.append({"t": t, "i": rng.randrange(len(keys)), "delta": rng.choice([0, 1, 1, -1]),
                        "base": rng.choice([10 ** 6, 10 ** 9, 2 ** 53, 10 ** 15, "float"])})
        elif t == "seteach":
            ks = htgen.queries(rng, keys, absent)
            ops.append({"t": t, "ks": ks, "xs": [rng.randint(lo, 99) for _ in ks]})
        elif t == "fill":
            ops.append({"t": t, "x": rng.randint(lo, 99)})
        elif t == "eq_other":
            # == against a table over the same keys (same order) whose value for ONE key differs / does not differ
            ops.append({"t": t, "i": rng.randrange(len(keys)), "delta": rng.choice([0, 1, 1, -1])})
        elif t == "add_perm":
            # t + t2 where t2 holds the SAME keys, handed to the constructor in another order, with its own values
            perm = list(range(len(keys))); rng.shuffle(perm)
            ops.append({"t": t, "perm": perm, "xs": [rng.randint(0, 50) for _ in keys]})
        elif t in ("contains", "hs_contains"):
            ks = htgen.queries(rng, keys, absent, maxlen=5) + ([rng.choice(absent)] if absent and rng.random() < 0.5 else [])
            if lo_hi is not None and rng.random() < 0.6:
                # values an implementation may use as a marker (-1, 0, the ends of the key dtype), as NON-keys among the queries
                marks = [a for a in (-1, 0, lo_hi[0], lo_hi[1], 1) if a not in keys and lo_hi[0] <= a <= lo_hi[1]]
                ks = ks + rng.sample(marks, min(len(marks), rng.randint(1, 2)))
            if absent and rng.random() < 0.4:       # the same absent key several times in one query, among present ones
                a1 = rng.choice(absent)
                ks = ks + [a1] * rng.randint(2, 3) + [rng.choice(keys)] + [rng.choice(absent)] * 2
                rng.shuffle(ks)
            ops.append({"t": t, "ks": ks})
        else:
            ops.append({"t": t})
    return ops


def cases(rng, tier):
    out = []
    for _ in range(1200 if tier == "quick" else 20000):
        dt = rng.choice(htgen.KEY_DTYPES)
        keys = htgen.key_set(rng, dt)
        mod = htgen.pick_mod(rng, len(keys))
        if mod is not None and mod > np.iinfo(dt).max:
            mod = None          # a modulus that does not fit the key dtype is not a meaningful configuration
        # queries normally come in the key dtype; for narrow key dtypes a third of the cases query with int64 arrays
        qdt = "int64" if (dt in ("int32", "int16", "uint8") and rng.random() < 0.35) else dt
        absent = htgen.absent_keys(rng, keys, dt, mod, wide=(qdt != dt))
        scalar = rng.random() < 0.3
        # a scalar-valued table without value_dtype stores values in the KEY dtype: keep them representable
        lo = 0 if np.dtype(dt).kind == "u" else -9
        vals = rng.choice([0, 1, 2, 3, 4, 5, 2.5, 0.75]) if scalar else [rng.randint(lo, 99) for _ in keys]
        ops = _history(rng, keys, absent, rng.randint(1, 8), lo, (int(np.iinfo(dt).min), int(np.iinfo(dt).max)))
        vdt = rng.choice(["int64", "int64", "float64", "int32"])
        if not scalar and rng.random() < 0.3:
            if rng.random() < 0.5:
                vdt = "float64"
                if not any(o["t"] == "like_set" for o in ops):
                    ops.insert(rng.randint(0, len(ops)), {"t": "like_set", "like": rng.choice(["zeros", "ones"]), "ks": [rng.choice(keys)], "x": 2})
            # fractional values: kept by a float-valued table, truncated (as numpy's cast does) by an integer-valued one --
            # consistently for every way of reading them back (vector lookup, single lookup, items, after a later assignment)
            for o in ops:
                if o["t"] in ("setscalar", "fill", "like_set") and rng.random() < 0.7:
                    o["x"] = rng.choice([0.75, 2.5, 7.25, -1.5] if lo < 0 else [0.75, 2.5, 7.25])
            ops.append({"t": "get1", "k": rng.choice(keys)})
            ops.append({"t": "items"})
        if scalar:
            ops = [o for o in ops if o["t"] != "acc_like"] or [{"t": "items"}]
            if isinstance(vals, int) and rng.random() < 0.4:
                # a table born with ONE shared integer value, filled with a fraction while it still holds one shared value: the
                # fraction is what every key has from then on, also after a later assignment to some keys only
                ops = [{"t": "fill", "x": rng.choice([2.5, 0.75, 7.25])}, {"t": "getvec", "ks": [rng.choice(keys) for _ in range(rng.randint(1, 3))]},
                       {"t": "get1", "k": rng.choice(keys)}, {"t": "setscalar", "ks": [rng.choice(keys)], "x": rng.randint(1, 9)}] + ops + [{"t": "items"}]
                ops = [o for o in ops if o["t"] not in ("zeros_like", "ones_like", "like_set", "iadd_table", "add_self", "add_perm", "add_const", "eq_big")]
        qbuf = rng.random() < 0.35
        if qbuf and len(keys) >= 2:
            # ONE query buffer, refilled in place between consecutive vector operations of the same length (a batch buffer)
            n = rng.randint(1, 3)
            def q():
                return [rng.choice(keys) for _ in range(n)]
            tail = [{"t": "getvec", "ks": q()}, {"t": "getvec", "ks": q()}, {"t": "setscalar", "ks": q(), "x": rng.randint(max(lo, 2), 99)}, {"t": "getvec", "ks": q()},
                    {"t": "contains", "ks": q()[:-1] + [rng.choice(absent) if absent else keys[0]]}, {"t": "getvec", "ks": q()}, {"t": "items"}]
            ops = ops + tail
        if scalar and np.dtype(dt).itemsize == 1:
            # a table holding one shared value keeps its values in the KEY dtype: with 8-bit keys repeated += would leave it
            ops = [o for o in ops if o["t"] not in ("iadd_num", "iadd_table")] or [{"t": "items"}]
        out.append({"keys": keys, "kdtype": dt, "qdtype": qdt, "mod": mod, "vals": vals,
                    "vdtype": vdt, "ops": ops, "qbuf": qbuf})
    # CROWDED buckets on narrow key dtypes: more keys in one bucket than the key dtype can count (130..250 keys of an 8-bit dtype
    # under modulus 1 / 2; 300 16-bit keys under modulus 1), all keys of the dtype, and the default modulus for comparison
    for i in range(12 if tier == "quick" else 150):
        dt = rng.choice(["int8", "uint8", "int8", "int16"]) if i >= 3 else ["int8", "uint8", "int8"][i]
        info = np.iinfo(dt)
        n = rng.choice([130, 200, 256]) if info.bits == 8 else rng.choice([300, 700])
        keys = rng.sample(range(int(info.min), int(info.max) + 1), n)
        mod = rng.choice([1, 1, 2, 3, None]) if i >= 3 else [1, 1, None][i]
        ks = [rng.choice(keys) for _ in range(5)]
        ops = [{"t": "getvec", "ks": ks}, {"t": "get1", "k": rng.choice(keys)}, {"t": "setscalar", "ks": ks[:2], "x": 77}, {"t": "getvec", "ks": ks + ks[::-1]},
               {"t": "contains", "ks": ks[:3]}, {"t": "items"}]
        out.append({"keys": keys, "kdtype": dt, "qdtype": dt, "mod": mod, "vals": [rng.randint(0, 99) for _ in keys], "vdtype": "int64", "ops": ops, "qbuf": False})
    return out


def key(p):
    return engine.stable_hash([p["keys"], p["mod"], p["ops"], p["vals"]])


def nontrivial(p):
    return len(p["keys"]) >= 2 and len(p["ops"]) >= 2


def distribution(ps):
    return {"n_keys": gens.hist(len(p["keys"]) for p in ps), "mods": gens.hist(p["mod"] for p in ps),
            "key_dtypes": gens.hist(p["kdtype"] for p in ps), "int64_queries_on_narrow_keys": sum(1 for p in ps if p.get("qdtype", p["kdtype"]) != p["kdtype"]), "scalar_valued": sum(1 for p in ps if not isinstance(p["vals"], list)),
            "ops": gens.hist(o["t"] for p in ps for o in p["ops"]),
            "queries_with_absent_key": sum(1 for p in ps for o in p["ops"] if "ks" in o and any(k not in p["keys"] for k in o["ks"])),
            "all_keys_collide": sum(1 for p in ps if p["mod"] == 1 and len(p["keys"]) > 1)}


def _num(x):
    x = x.item() if hasattr(x, "item") else x
    return float(x) if isinstance(x, float) else int(x)


def _other_key(p, o):
    """a key absent from the table that falls into the same bucket as key number o["i"] (None when the key dtype has no room)"""
    m = p["mod"] if p["mod"] is not None else 2 * len(p["keys"]) - 1
    info = np.iinfo(np.dtype(p["kdtype"]))
    for mult in (1, 2, 3, -1, -2):
        k2 = p["keys"][o["i"]] + mult * m
        if info.min <= k2 <= info.max and k2 not in p["keys"] and (k2 >= 0 or info.min < 0):
            return k2
    return None


def run_impl(p):
    from npstructures import HashTable, HashSet
    def g():
        kd = np.dtype(p["kdtype"])
        keys = np.array(p["keys"], dtype=kd)
        qd = np.dtype(p.get("qdtype", p["kdtype"]))
        vals = p["vals"] if not isinstance(p["vals"], list) else np.array(p["vals"], dtype=p["vdtype"])
        kw = {} if p["mod"] is None else {"mod": p["mod"]}
        keys0 = keys.copy()
        vals0 = vals.copy() if isinstance(vals, np.ndarray) else vals
        t = HashTable(keys, vals, **kw)
        twin = HashTable(keys, vals, **kw)        # a second table built from the SAME arrays, never written to
        hs = HashSet(keys, **kw)
        trace = []
        bufs = {}
        def qarr(ks):
            # a fresh query array, or (qbuf) the caller's batch buffer of that length, refilled in place
            if not p.get("qbuf") and ks and len(trace) % 3 == 1 and max(abs(k) for k in ks) < 2 ** 62 and (kd.kind == "i" or (min(ks) >= 0 and kd.itemsize < 8)):
                # the keys as a plain Python list (numpy reads it as int64; a uint64-keyed table is queried with uint64 arrays only:
                # numpy promotes int64 with uint64 to float64, which is not a key type)
                return list(ks)
            if not p.get("qbuf") or not ks:
                return np.array(ks, dtype=qd)
            b = bufs.setdefault(len(ks), np.zeros(len(ks), dtype=qd))
            b[...] = np.array(ks, dtype=qd)
            return b
        for o in p["ops"]:
            def one():
                k = o["t"]
                if k == "getvec":
                    return [_num(x) for x in t[qarr(o["ks"])]] if o["ks"] else [_num(x) for x in t[np.array([], dtype=kd)]]
                if k == "get1":
                    r = t[int(o["k"]) if len(trace) % 2 == 0 else kd.type(o["k"])]      # a Python int / a numpy scalar of the key dtype
                    return [_num(x) for x in np.atleast_1d(r)]
                if k == "setscalar":
                    t[qarr(o["ks"])] = o["x"]; return True
                if k == "seteach":
                    t[qarr(o["ks"])] = np.array(o["xs"], dtype=p["vdtype"]); return True
                if k == "fill":
                    t.fill(o["x"]); return True
                if k == "contains":
                    return [bool(x) for x in t.contains(qarr(o["ks"]))]
                if k == "hs_contains":
                    return [bool(x) for x in hs.contains(qarr(o["ks"]))]
                if k == "items":
                    a = htgen.sort_pairs((kk, _num(v)) for kk, v in t.items())
                    b = htgen.sort_pairs((kk, _num(v)) for kk, v in t.to_dict().items())
                    return a if a == b else ["items != to_dict", a, b]
                if k == "zeros_like":
                    return htgen.sort_pairs((kk, _num(v)) for kk, v in np.zeros_like(t).to_dict().items())
                if k == "ones_like":
                    return htgen.sort_pairs((kk, _num(v)) for kk, v in np.ones_like(t).to_dict().items())
                if k == "add_self":
                    return htgen.sort_pairs((kk, _num(v)) for kk, v in (t + t).to_dict().items())
                if k == "add_perm":
                    k2 = np.array([p["keys"][i] for i in o["perm"]], dtype=kd)
                    t2 = HashTable(k2, np.array(o["xs"], dtype=np.int64), **kw)
                    try:
                        r = t + t2
                    except Exception:
                        return "not-judged"      # refusing to add tables whose buckets are laid out differently is legitimate
                    return htgen.sort_pairs((kk, _num(v)) for kk, v in r.to_dict().items())
                if k == "eq_self":
                    return bool(t == t)
                if k == "hs_contains1":
                    return bool(hs.contains(int(o["k"])))
                if k == "iadd_num":
                    t2 = t; t2 += o["x"]
                    if t2 is not t:
                        raise engine.Inconsistent("+= returned another object")
                    return True
                if k == "iadd_table":
                    # (a table holding one shared value keeps it in the KEY dtype: it is added to another such table only)
                    sc = o["scalar"] or not isinstance(p["vals"], list)
                    other = HashTable(keys, o["xs"][0] if sc else np.array(o["xs"], dtype=p["vdtype"]), **kw)
                    t2 = t; t2 += other
                    if t2 is not t:
                        raise engine.Inconsistent("+= returned another object")
                    return htgen.sort_pairs((kk, _num(v)) for kk, v in other.to_dict().items())
                if k == "acc_like":
                    acc = (np.zeros_like if o["like"] == "zeros" else np.ones_like)(t)
                    acc += t
                    if o["how"] == "set":
                        acc[np.array(o["ks"], dtype=kd)] = o["x"]
                    elif o["how"] == "fill":
                        acc.fill(o["x"])
                    else:
                        acc += t
                    return [htgen.sort_pairs((kk, _num(v)) for kk, v in acc.to_dict().items()),
                            htgen.sort_pairs((kk, _num(v)) for kk, v in t.to_dict().items())]
                if k == "like_set":
                    r = (np.zeros_like if o["like"] == "zeros" else np.ones_like)(t)
                    r[np.array(o["ks"], dtype=qd)] = o["x"]
                    return htgen.sort_pairs((kk, _num(v)) for kk, v in r.to_dict().items())
                if k == "eq_big":
                    if o["base"] == "float":
                        v1 = np.array([1.0 + 0.5 * i for i in range(len(keys))])
                        v2 = v1.copy(); v2[o["i"]] = v2[o["i"]] * (1 + o["delta"] * 1e-9)
                    else:
                        v1 = np.array([o["base"] + 3 * i for i in range(len(keys))], dtype=np.int64)
                        v2 = v1.copy(); v2[o["i"]] += o["delta"]
                    return bool(HashTable(keys, v1, **kw) == HashTable(keys, v2, **kw))
                if k == "add_const":
                    base = t if o["left"] == "self" else (np.zeros_like(t) if o["left"] == "zeros" else np.ones_like(t))
                    c = HashTable(keys, o["c"], **kw)
                    r = (base + c) if o["order"] == "tc" else (c + base)
                    vec = [float(v) for v in np.atleast_1d(r[keys])]
                    dic = r.to_dict(); one = [float(np.atleast_1d(r[int(kk)])[0]) for kk in p["keys"]]
                    return [vec, [float(dic[kd.type(kk)]) if kd.type(kk) in dic else float(dic[kk]) for kk in p["keys"]], one]
                if k == "eq_keys":
                    k2 = _other_key(p, o)
                    if k2 is None or not isinstance(p["vals"], list):
                        return "not-judged"
                    keys2 = keys.copy(); keys2[o["i"]] = k2
                    cur = np.array([_num(x) for x in t[keys]])
                    return bool(t == HashTable(keys2, cur, **kw)) or bool(HashTable(keys2, cur, **kw) == t)
                if k == "eq_other":
                    cur = [_num(x) for x in t[keys]]
                    cur[o["i"]] = cur[o["i"]] + o["delta"]
                    t2 = HashTable(keys, np.array(cur), **kw)
                    return bool(t == t2)
            try:
                r = one()
                trace.append(None if r == "not-judged" else ({"k": "refuse"} if r is None else json_safe(r)))
            except Exception as e:
                if o["t"] in ("setscalar", "seteach"):
                    trace.append(False)
                else:
                    trace.append({"k": "refuse"})
        # the arrays handed to the constructor belong to the caller, and the twin table never changed
        if not np.array_equal(keys, keys0) or (isinstance(vals, np.ndarray) and not np.array_equal(vals, vals0)):
            raise engine.Inconsistent("the table wrote into the arrays it was constructed from")
        now = [_num(x) for x in np.atleast_1d(twin[keys0])]
        ini = [_num(x) for x in (vals0 if isinstance(vals0, np.ndarray) else [vals0] * len(keys0))]
        if now != ini:
            raise engine.Inconsistent("a table built from the same arrays changed along with this one")
        return {"k": "trace", "v": trace}
    return guarded(g)


def json_safe(r):
    return r


def oracle(p):
    d = dict(zip(p["keys"], [p["vals"]] * len(p["keys"]) if not isinstance(p["vals"], list) else
                 [float(v) if p["vdtype"] == "float64" else v for v in p["vals"]]))
    if not isinstance(p["vals"], list):
        d = {k: p["vals"] for k in p["keys"]}
    def cast(x):
        # what numpy's assignment into an array of the table's value dtype stores (a fraction is cut off for integer dtypes)
        if isinstance(x, float) and isinstance(p["vals"], list):
            return float(x) if p["vdtype"] == "float64" else int(np.array(x).astype(p["vdtype"]))
        return x
    trace = []
    for o in p["ops"]:
        k = o["t"]
        if "x" in o:
            o = dict(o, x=cast(o["x"]))
        if k == "getvec":
            trace.append([d[q] for q in o["ks"]] if all(q in d for q in o["ks"]) else {"k": "refuse"})
        elif k == "get1":
            trace.append([d[o["k"]]])
        elif k in ("setscalar", "seteach"):
            if all(q in d for q in o["ks"]):
                xs = [o["x"]] * len(o["ks"]) if k == "setscalar" else o["xs"]
                for q, x in zip(o["ks"], xs):
                    d[q] = x
                trace.append(True)
            else:
                trace.append(False)
        elif k == "fill":
            for q in d:
                d[q] = o["x"]
            trace.append(True)
        elif k in ("contains", "hs_contains"):
            trace.append([q in d for q in o["ks"]])
        elif k == "items":
            trace.append(htgen.sort_pairs(d.items()))
        elif k == "zeros_like":
            trace.append(htgen.sort_pairs((q, 0) for q in d))
        elif k == "ones_like":
            trace.append(htgen.sort_pairs((q, 1) for q in d))
        elif k == "add_self":
            trace.append(htgen.sort_pairs((q, 2 * v) for q, v in d.items()))
        elif k == "add_perm":
            d2 = {p["keys"][i]: x for i, x in zip(o["perm"], o["xs"])}
            trace.append(htgen.sort_pairs((q, v + d2[q]) for q, v in d.items()))
        elif k == "eq_self":
            trace.append(True)
        elif k == "hs_contains1":
            trace.append(o["k"] in d)
        elif k == "iadd_num":
            for q in d:
                d[q] = d[q] + o["x"]
            trace.append(True)
        elif k == "iadd_table":
            sc = o["scalar"] or not isinstance(p["vals"], list)
            xs = [o["xs"][0]] * len(p["keys"]) if sc else o["xs"]
            xs = [float(x) if p["vdtype"] == "float64" and not sc else x for x in xs]
            for q, x in zip(p["keys"], xs):
                d[q] = d[q] + x
            trace.append(htgen.sort_pairs(zip(p["keys"], xs)))
        elif k == "acc_like":
            acc = {q: (0 if o["like"] == "zeros" else 1) + v for q, v in d.items()}
            if o["how"] == "set":
                for q in o["ks"]:
                    acc[q] = o["x"]
            elif o["how"] == "fill":
                acc = {q: o["x"] for q in acc}
            else:
                acc = {q: v + d[q] for q, v in acc.items()}
            trace.append([htgen.sort_pairs(acc.items()), htgen.sort_pairs(d.items())])
        elif k == "like_set":
            d2 = {q: (0 if o["like"] == "zeros" else 1) for q in d}
            for q in o["ks"]:
                d2[q] = o["x"]
            trace.append(htgen.sort_pairs(d2.items()))
        elif k == "eq_big":
            trace.append(o["delta"] == 0)
        elif k == "eq_other":
            trace.append(o["delta"] == 0)
        elif k == "add_const":
            vals = [float((d[q] if o["left"] == "self" else 0 if o["left"] == "zeros" else 1) + o["c"]) for q in p["keys"]]
            trace.append([vals, vals, vals])
        elif k == "eq_keys":
            trace.append(None if _other_key(p, o) is None or not isinstance(p["vals"], list) else False)
    return {"k": "trace", "v": trace}


LEAN_OPS = ("getvec", "get1", "setscalar", "seteach", "fill", "contains", "items", "hs_contains", "zeros_like", "ones_like", "like_set",
            "iadd_num", "iadd_table", "add_self", "eq_self", "eq_other", "eq_big", "hs_contains1")


def lean_request(p):
    # HashSet(keys).contains is the `contains` of a table over the same keys (its values play no role)
    if isinstance(p["vals"], float):
        return None          # a non-integral shared value: the model's values are integers
    if any(isinstance(o.get("x"), float) for o in p["ops"]):
        return None          # fractional values: the model's values are integers
    ops = [dict(o, t="contains") if o["t"] == "hs_contains" else o for o in p["ops"]]
    ops = [dict(o, scalar=bool(o["scalar"] or not isinstance(p["vals"], list))) if o["t"] == "iadd_table" else o for o in ops]
    return {"op": "HT.runx", "keys": p["keys"], "vals": p["vals"], "mod": p["mod"], "ops": ops}


def decode_lean(p, resp):
    def conv(j):
        if isinstance(j, dict) and j.get("refuse"):
            return refuse()
        trace = []
        for o, x in zip(p["ops"], j):
            if x is None or o["t"] not in LEAN_OPS:
                trace.append(None)        # not modelled in Lean
            elif o["t"] == "get1" and isinstance(x, dict):
                trace.append({"k": "refuse"})
            elif isinstance(x, dict):
                trace.append(False if o["t"] in ("setscalar", "seteach") else {"k": "refuse"})
            else:
                trace.append(x)
        return {"k": "trace", "v": trace}
    return conv(resp["L"]), conv(resp["S"])


def _eqv(a, b):
    if a is None or b is None:
        return True
    if isinstance(a, dict) or isinstance(b, dict):
        return isinstance(a, dict) and isinstance(b, dict)
    if isinstance(a, list) and isinstance(b, list):
        return len(a) == len(b) and all(_eqv(x, y) for x, y in zip(a, b))
    if isinstance(a, bool) or isinstance(b, bool):
        return a is b or a == b and isinstance(a, bool) and isinstance(b, bool)
    if isinstance(a, str) or isinstance(b, str):
        return a == b          # (a harness message such as "items != to_dict" is an answer that equals nothing else)
    return float(a) == float(b)


def same(a, b):
    if engine.is_refuse(a) or engine.is_refuse(b):
        return engine.is_refuse(a) and engine.is_refuse(b)
    return len(a["v"]) == len(b["v"]) and all(_eqv(x, y) for x, y in zip(a["v"], b["v"]))


def matches_finding(f, p, impl, expect):
    return False
