"""C03 — assignment writes exactly the addressed cells and nothing else."""
import random, copy
import numpy as np
import engine, gens, ragidx
from engine import canon, guarded, refuse

ID = "C03"
LEVEL = "proof"
LEVEL_TEXT = ("Lean 4 theorem C03_setitem: for every list of rows, every index expression of C02's grammar and every value kind (scalar, "
              "flat array, column vector, ragged array with matching or mismatching row lengths), the model of ra[idx] = value -- "
              "index resolution through the same geometry and generated kernels as reading, column broadcast by the XOR builder, "
              "numpy scatter -- yields exactly the rows obtained by writing the values, in order, into the cells the index addresses "
              "on the plain list of rows, and refuses exactly when that does; corollaries: unaddressed cells, row count and row "
              "lengths never change. Same for boolean ragged masks. Tied to the code by correspondence on exhaustive small shapes x "
              "index grammar x value kinds x dtypes with every cell distinct, so 'nothing else changed' is checked on every cell.")
LEVEL_NOTE = ("Trusted: Lean kernel (+ standard axioms), kernel translator, N layer (numpy scatter: sequential, last write wins), "
              "hand model of __setitem__'s dispatch (tied by correspondence). Row selectors with repeats are outside the property "
              "(numpy's last-write-wins then applies) but are still compared.")
TECHNIQUE = "Lean 4 proof of setitem model = cell-wise writes on list of rows; kernels translated from source; correspondence"
DESIGN_REF = "7"
LEAN_MODULES = ["NpsVerif.Props.C03"]
KERNELS = ("view2_ends", "calc_lengths", "pos_col_slice", "col_slice_slice", "col_slice_int")
RULE = ("cases = ragged array with distinct cells (exhaustive shapes <=3x3 + random) x index expression (C02 grammar, non-repeating "
        "row selectors) x value kind (scalar / flat matching / flat mismatching / column / ragged matching / ragged mismatching) "
        "x dtype, plus boolean ragged mask assignment; distinct = distinct (lengths, index, value kind); non-trivial = at least "
        "one cell addressed and the assignment accepted")
EXHAUSTIVE = {"quick": False, "thorough": False}
CORRESPONDENCE_ONLY = ["dtype casting of assigned values"]
ASSUMPTIONS = ["any exception counts as refusal", "numpy a[idx] = v semantics as in the N layer"]


def _norepeat(n, r):
    if r["t"] != "list":
        return True
    try:
        norm = [i if i >= 0 else n + i for i in r["is"]]
    except Exception:
        return False
    return len(set(norm)) == len(norm)


def _value_kinds(lens, idx, rng):
    """value descriptors appropriate for the selection's shape"""
    try:
        groups = ragidx.addressed_cells(lens, idx)
    except ragidx.Refused:
        return [{"t": "scalar"}]
    c = idx.get("c")
    is_int_r = idx["r"]["t"] == "int"
    ragged_sel = (c is None and not is_int_r) or (c is not None and c["t"] == "slice" and not is_int_r)
    n = sum(len(g) for g in groups)
    if is_int_r and c is not None and c["t"] == "int":
        return [{"t": "scalar"}]          # a single element takes a scalar
    out = [{"t": "scalar"}, {"t": "flat", "n": n}]
    if n + 1 != 1:
        out.append({"t": "flat", "n": n + 1})
    if ragged_sel:
        k = len(groups)
        out.append({"t": "column", "n": k})
        if k != 1:
            out.append({"t": "column", "n": k + 1})
        out.append({"t": "ragged", "lens": [len(g) for g in groups]})
        gl = [len(g) for g in groups]
        if gl and gl[0] >= 1 and all(l == gl[0] for l in gl):
            # equally long rows also take a MATRIX (one matrix row per selected row), in any memory layout
            out.append({"t": "ragged", "lens": gl, "as": "matrix", "layout": rng.choice(["C", "F", "T", "strided"])})
        bad = [len(g) for g in groups]
        if bad:
            j = rng.randrange(len(bad)); bad[j] += 1
            if len(bad) > 1:
                j2 = (j + 1) % len(bad)
                if bad[j2] > 0:
                    bad[j2] -= 1           # same total size, different row lengths
            out.append({"t": "ragged", "lens": bad})
    return out


def cases(rng, tier):
    out = []
    def add(lens, idx, val, dt=None):
        out.append({"lens": lens, "idx": idx, "val": val, "dtype": dt or rng.choice(["int64", "int32", "uint8", "float64", "bool", "int8", "uint64", "float32", "int16"]),
                    "vseed": rng.randint(0, 999), "variant": rng.randint(0, 29)})
    shapes = gens.shapes_exhaustive(3, 3) if tier == "quick" else gens.shapes_exhaustive(4, 3)
    for lens in shapes:
        n, m = len(lens), max(lens) if lens else 0
        rs = [r for r in ragidx.rowsels_exhaustive(n, rng, n_slices=8 if tier == "quick" else 30) if _norepeat(n, r)]
        cs = ragidx.colsels_exhaustive(m, rng, n_slices=10 if tier == "quick" else 40)
        for r in rs:
            idx = {"r": r, "c": None}
            for v in _value_kinds(lens, idx, rng):
                add(lens, idx, v)
            for c in rng.sample(cs, min(len(cs), 5 if tier == "quick" else 12)):
                idx = {"r": r, "c": c}
                kinds = _value_kinds(lens, idx, rng)
                for v in (kinds if r["t"] == "all" else rng.sample(kinds, min(2, len(kinds)))):
                    add(lens, idx, v)
        # boolean ragged masks
        for _ in range(3):
            mask = [[rng.random() < 0.5 for _ in range(l)] for l in lens]
            cnt = sum(sum(r) for r in mask)
            for v in ({"t": "scalar"}, {"t": "flat", "n": cnt}):
                out.append({"lens": lens, "mask": mask, "idx": None, "val": v, "dtype": rng.choice(["int64", "float64", "uint8"]), "vseed": rng.randint(0, 999), "variant": 0})
            # the mask OBJECT was used as an index before, with other content, and was changed in place since (&=, a write through its
            # flat view / a row view, fill): the assignment goes by what the mask holds now
            was = [[b or rng.random() < 0.4 for b in row] for row in mask]
            out.append({"lens": lens, "mask": mask, "mask_was": was, "mhow": rng.choice(["iand", "flat", "row", "fill"]), "idx": None,
                        "val": rng.choice([{"t": "scalar"}, {"t": "flat", "n": cnt}]), "dtype": rng.choice(["int64", "float64"]), "vseed": rng.randint(0, 999), "variant": 0})
    for _ in range(2000 if tier == "quick" else 30000):
        lens = gens.shape_random(rng, 10, 6)
        n, m = len(lens), max(lens) if lens else 0
        r = ragidx.rowsel_random(n, rng)
        if not _norepeat(n, r):
            continue
        c = ragidx.colsel_random(m, rng) if rng.random() < 0.6 else None
        idx = {"r": r, "c": c}
        add(lens, idx, rng.choice(_value_kinds(lens, idx, rng)))
    # the assigned value is a VIEW OF THE ARRAY'S OWN BUFFER that overlaps the target (numpy semantics: as if the value had been
    # copied first): the row reversed, a window of the flat buffer shifted by one cell, another row of the same length
    for _ in range(150 if tier == "quick" else 2000):
        lens = gens.shape_random(rng, 8, 6)
        cand = [i for i, l in enumerate(lens) if l >= 1]
        if not cand:
            continue
        i = rng.choice(cand)
        how = rng.choice(["rev_row", "rev_row", "flat_shift", "other_row", "row_window"])
        out.append({"lens": lens, "idx": {"r": {"t": "int", "i": i if rng.random() < 0.7 else i - len(lens)}, "c": None}, "val": {"t": "self", "how": how},
                    "dtype": rng.choice(["int64", "float64", "int8", "uint16"]), "vseed": rng.randint(0, 999), "variant": 0, "selfval": True})
    # selections of MORE THAN 100000 rows (the library builds long flat-index arrays piecewise): stepped, reversed, masked and
    # permuted row selectors over arrays with many empty rows; too long for the Lean driver (implementation vs oracle only)
    for _ in range(3 if tier == "quick" else 12):
        n = rng.randint(200001, 260000)
        lens = [rng.choice([0, 0, 1, 2, 3]) for _ in range(n)]
        t = rng.choice(["step", "rev", "mask", "perm"])
        if t == "step":
            r = {"t": "slice", "a": rng.choice([None, 1]), "b": None, "k": 2}
        elif t == "rev":
            r = {"t": "slice", "a": None, "b": None, "k": -1}
        elif t == "mask":
            r = {"t": "mask", "bs": [rng.random() < 0.6 for _ in range(n)]}
        else:
            sel = list(range(0, n, 2)); rng.shuffle(sel)
            r = {"t": "list", "is": sel}
        out.append({"lens": lens, "idx": {"r": r, "c": None}, "val": {"t": "scalar"}, "dtype": rng.choice(["int64", "int8", "float64"]),
                    "vseed": rng.randint(0, 999), "variant": 0, "big": True})
    return out


def key(p):
    return engine.stable_hash([p["lens"], p["idx"], p.get("mask"), p["val"], p.get("mhow")])


def nontrivial(p):
    return sum(p["lens"]) > 0


def distribution(ps):
    d = gens.shape_stats([p["lens"] for p in ps])
    d["index_kinds"] = gens.hist((ragidx.idx_kind(p["idx"]) if p["idx"] else "ragged-mask") for p in ps)
    d["value_kinds"] = gens.hist(p["val"]["t"] for p in ps)
    d["dtypes"] = gens.hist(p["dtype"] for p in ps)
    return d


def _pools(p):
    n = sum(p["lens"])
    pool = gens.cell_values(p["dtype"], n + 40, random.Random(p.get("vseed", 0)))
    return pool[:n], pool[n:]


def _value_ids(p):
    """value as id structure (ids index the value pool)"""
    v = p["val"]
    if v["t"] == "scalar":
        return {"t": "scalar", "v": 0}
    if v["t"] in ("flat", "column"):
        return {"t": v["t"], "v": list(range(min(v["n"], 39)))}
    rows, k = [], 0
    for l in v["lens"]:
        rows.append([(k + j) % 39 for j in range(l)]); k += l
    return {"t": "ragged", "v": rows}


def _py_value(p, vpool):
    from npstructures import RaggedArray
    vi = _value_ids(p)
    dt = p["dtype"]
    if vi["t"] == "scalar":
        x = vpool[0]
        return x.item() if p.get("variant", 0) % 2 == 0 else x
    if vi["t"] == "flat":
        arr = np.array([vpool[i] for i in vi["v"]], dtype=dt)
        return arr
    if vi["t"] == "column":
        arr = np.array([vpool[i] for i in vi["v"]], dtype=dt).reshape(-1, 1)
        return arr
    flat = np.array([vpool[i] for r in vi["v"] for i in r], dtype=dt)
    if p["val"].get("as") == "matrix":
        m = flat.reshape(len(vi["v"]), len(vi["v"][0]))
        lay = p["val"].get("layout", "C")
        return np.asfortranarray(m) if lay == "F" else np.ascontiguousarray(m.T).T if lay == "T" else np.repeat(m, 2, axis=1)[:, ::2] if lay == "strided" else m
    return RaggedArray(flat, [len(r) for r in vi["v"]])


def run_impl(p):
    from npstructures import RaggedArray
    def f():
        cells, vpool = _pools(p)
        ra = RaggedArray(cells.copy(), list(p["lens"]))
        if not p.get("big"):
            # the target of the assignment is sometimes itself a RESULT (see gens.derive_ra)
            ra = gens.derive_ra(ra, gens.DERIVATIONS[(p.get("vseed", 0) + p.get("variant", 0)) % len(gens.DERIVATIONS)])
        if p.get("selfval"):
            i = p["idx"]["r"]["i"]
            val = _self_value(p, ra.ravel(), lambda j: ra[j])
            if val is None:
                return {"k": "obs", "rows": canon(ra), "lengths": canon([int(x) for x in ra.lengths]), "n_rows": canon(len(ra))}
            ra[i] = val
            return {"k": "obs", "rows": canon(ra), "lengths": canon([int(x) for x in ra.lengths]), "n_rows": canon(len(ra))}
        val = _py_value(p, vpool)
        before = np.asarray(ra.ravel()).copy()
        try:
            if p.get("mask") is not None:
                mflat = np.array([b for r in p["mask"] for b in r], dtype=bool)
                m = RaggedArray(mflat.copy(), list(p["lens"]))
                if "mask_was" in p:
                    wflat = np.array([b for r in p["mask_was"] for b in r], dtype=bool)
                    m = RaggedArray(wflat.copy(), list(p["lens"]))
                    ra[m]                                   # first use of the mask object, with its earlier content
                    how = p["mhow"]
                    if how == "iand":
                        m &= RaggedArray(mflat.copy(), list(p["lens"]))
                    elif how == "flat":
                        m.ravel()[...] = mflat
                    elif how == "row":
                        k = 0
                        for i, l in enumerate(p["lens"]):
                            if l:
                                m[i][...] = mflat[k:k + l]
                            k += l
                    else:
                        m.fill(False)
                        m.ravel()[...] = mflat
                ra[m] = val
            else:
                ra[ragidx.py_index(p["idx"], p.get("variant", 0))] = val
        except Exception:
            # a refused assignment must leave the array as it was
            now = np.asarray(ra.ravel())
            if now.shape != before.shape or now.tobytes() != before.tobytes() or [int(x) for x in ra.lengths] != list(p["lens"]):
                return {"k": "obs", "refused_but_changed": canon(ra)}
            raise
        return {"k": "obs", "rows": canon(ra), "lengths": canon([int(x) for x in ra.lengths]), "n_rows": canon(len(ra))}
    return guarded(f)


def _self_value(p, flat, row):
    """a value taken from the array's own storage (`flat`: its flat buffer, `row(j)`: its j-th row); None = this case has none"""
    lens = p["lens"]; n = len(lens)
    i = p["idx"]["r"]["i"] % n
    L = lens[i]; st = sum(lens[:i]); tot = sum(lens)
    how = p["val"]["how"]
    if how == "rev_row":
        return row(i)[::-1]
    if how == "flat_shift":
        k = st + 1 if st + 1 + L <= tot else st - 1
        return flat[k:k + L] if 0 <= k and k + L <= tot else None
    if how == "row_window":
        return flat[st:st + L][::-1][:L]
    js = [j for j in range(n) if j != i and lens[j] == L]
    return row(js[0]) if js else None


def _assign(rows, cells, vals):
    rows = [list(r) for r in rows]
    for (r, c), v in zip(cells, vals):
        rows[r][c] = v
    return rows


def oracle(p):
    cells, vpool = _pools(p)
    dt = np.dtype(p["dtype"])
    lens = p["lens"]
    rows, k = [], 0
    for l in lens:
        rows.append(list(cells[k:k + l])); k += l
    if p.get("selfval"):
        old = np.array(cells).copy()
        starts = [sum(lens[:j]) for j in range(len(lens))]
        val = _self_value(p, old, lambda j: old[starts[j]:starts[j] + lens[j]])
        new = [np.array(r, dtype=dt) for r in rows]
        if val is not None:
            new[p["idx"]["r"]["i"] % len(lens)] = np.array(val, dtype=dt).copy()
        return {"k": "obs", "rows": {"k": "ra", "dt": str(dt), "v": [engine._nest(r.tolist()) for r in new]}, "lengths": canon(list(lens)), "n_rows": canon(len(lens))}
    vi = _value_ids(p)
    try:
        if p.get("mask") is not None:
            groups = [[(r, c) for c, b in enumerate(row) if b] for r, row in enumerate(p["mask"])]
            ragged_sel = False
        else:
            groups = ragidx.addressed_cells(lens, p["idx"])
            c = p["idx"].get("c"); is_int_r = p["idx"]["r"]["t"] == "int"
            ragged_sel = (c is None and not is_int_r) or (c is not None and c["t"] == "slice" and not is_int_r)
    except ragidx.Refused:
        return refuse()
    flatcells = [rc for g in groups for rc in g]
    n = len(flatcells)
    t = vi["t"]
    if t == "scalar":
        vals = [vpool[0]] * n
    elif t == "flat":
        vs = [vpool[i] for i in vi["v"]]
        if len(vs) == n:
            vals = vs
        elif len(vs) == 1:
            vals = vs * n
        else:
            return refuse()
    elif t == "column":
        vs = [vpool[i] for i in vi["v"]]
        if not ragged_sel:
            return refuse() if len(vs) not in (n, 1) else None
        if len(vs) == 1:
            vals = vs * n
        elif len(vs) != len(groups):
            return refuse()
        else:
            vals = [v for g, v in zip(groups, vs) for _ in g]
    else:
        if not ragged_sel or [len(r) for r in vi["v"]] != [len(g) for g in groups]:
            return refuse()
        vals = [vpool[i] for r in vi["v"] for i in r]
    new = _assign(rows, flatcells, vals)
    return {"k": "obs", "rows": {"k": "ra", "dt": str(dt), "v": [engine._nest(np.array(r, dtype=dt).tolist()) for r in new]},
            "lengths": canon(list(lens)), "n_rows": canon(len(lens))}


def lean_request(p):
    if p.get("big") or p.get("selfval"):
        return None
    vi = _value_ids(p)
    n = sum(p["lens"])
    def sh(x):
        return x + 1000
    v = dict(vi)
    v["v"] = sh(vi["v"]) if vi["t"] == "scalar" else ([sh(i) for i in vi["v"]] if vi["t"] != "ragged" else [[sh(i) for i in r] for r in vi["v"]])
    return {"op": "C03.setitem", "rows": gens.rows_of_ids(p["lens"]), "idx": p["idx"], "val": v, "mask": p.get("mask")}


def decode_lean(p, resp):
    cells, vpool = _pools(p)
    dt = np.dtype(p["dtype"])
    def val(i):
        return vpool[i - 1000] if i >= 1000 else cells[i]
    def conv(j):
        if isinstance(j, dict) and j.get("refuse"):
            return refuse()
        return {"k": "obs", "rows": {"k": "ra", "dt": str(dt), "v": [engine._nest(np.array([val(i) for i in r], dtype=dt).tolist()) for r in j]},
                "lengths": canon([len(r) for r in j]), "n_rows": canon(len(j))}
    return conv(resp["L"]), conv(resp["S"])


def same(a, b):
    if a is None or b is None:
        return True        # the oracle abstains (numpy's own broadcasting of a 2-D value onto a 1-D selection)
    return engine.same(a, b)


def matches_finding(f, p, impl, expect):
    return False
