"""C02 — indexing reads exactly the addressed cells, or refuses."""
import random
import numpy as np
import engine, gens, ragidx
from engine import canon, guarded, refuse

ID = "C02"
LEVEL = "proof"
LEVEL_TEXT = ("Machine-checked Lean 4 theorem C02_getitem: for EVERY list of rows (any lengths, empty rows anywhere), every element "
              "type and every index expression of the grammar (row selector int / slice any step / integer list / bool mask / "
              "Ellipsis, optional column selector int / slice with any start, stop, step), the model of RaggedArray(rows)[idx] "
              "-- code geometry, row selection, column-slice kernels, cumsum gather-index builder, gather -- equals the same "
              "selectors applied to the plain list of rows, and refuses exactly when they do. The column-slice kernels are "
              "re-generated from /repo's source on every run and bridged to the reference kernels by re-proved lemmas (a changed "
              "kernel breaks a proof obligation); the rest of the model is tied to the code by a correspondence check "
              "(implementation vs compiled model vs Lean spec vs CPython) on exhaustive small shapes x the index grammar x dtypes.")
LEVEL_NOTE = ("Trusted: Lean kernel (+ propext/Classical.choice/Quot.sound), kernel translator with its row-projection convention, "
              "N layer (numpy gather/scatter/cumsum semantics), the hand-written model of the dispatch glue and of build_indices "
              "(tied by differential correspondence only), CPython slice semantics as transcribed in Spec/Py.lean (validated against "
              "CPython on every case). Ragged boolean-mask indexing and (int, list)/(list, list) element access are correspondence-only.")
TECHNIQUE = "Lean 4 proof over kernels translated from source each run + model/implementation correspondence"
DESIGN_REF = "7"
LEAN_MODULES = ["NpsVerif.Props.C02Kernels", "NpsVerif.Props.C02Gather", "NpsVerif.Props.C02GetItem"]
KERNELS = ("view2_ends", "calc_lengths", "pos_col_slice", "col_slice_slice", "col_slice_int")
RULE = ("cases = ragged array (exhaustive row-length vectors <=3 rows x <=3 cells, plus random larger ones; cells are distinct) x "
        "index expression (row selector: int / slice any step / list with repeats+negatives / bool mask incl. wrong length / Ellipsis; "
        "optional column selector: int / slice with bounds in {None} U [-(m+2), m+2] and steps None,+-1,+-2,+-3) x dtype; "
        "distinct = distinct (lengths, index); non-trivial = result is not a refusal and the array has at least one cell")
EXHAUSTIVE = {"quick": False, "thorough": False}
CORRESPONDENCE_ONLY = ["ra[ragged boolean mask] (covered under C08)", "dtype tags of results"]
ASSUMPTIONS = ["any exception of the implementation counts as a refusal", "numpy fancy/basic indexing semantics as modelled in the N layer"]


def _vals(p):
    return gens.cell_values(p["dtype"], sum(p["lens"]), random.Random(p.get("vseed", 0)))


def cases(rng, tier):
    out = []
    def add(lens, idx, dt=None, variant=None):
        out.append({"lens": lens, "idx": idx, "dtype": dt or rng.choice(["int64", "int64", "int32", "uint8", "float64", "bool", "int8", "uint64", "float32", "int16", "uint16", "uint32"]),
                    "vseed": rng.randint(0, 999), "variant": rng.randint(0, 29) if variant is None else variant})
    shapes = gens.shapes_exhaustive(3, 3)
    if tier == "thorough":
        shapes = gens.shapes_exhaustive(4, 3)
    for lens in shapes:
        n, m = len(lens), max(lens) if lens else 0
        full = (n <= 2) if tier == "quick" else (n <= 3)
        rs = ragidx.rowsels_exhaustive(n, rng, n_slices=10 if tier == "quick" else 40)
        cs = ragidx.colsels_exhaustive(m, rng, n_slices=16 if tier == "quick" else 60)
        for r in rs:
            add(lens, {"r": r, "c": None})
        # full column-slice grid with every row kept (the densest population of arithmetic mutants)
        if full:
            for c in ragidx.colsels_exhaustive(m, rng, full_grid=True):
                add(lens, {"r": {"t": "all"}, "c": c}, dt="int64", variant=0)
        # stratified row x column pairs
        for r in rs:
            for c in (cs if r["t"] in ("all", "int") else rng.sample(cs, min(len(cs), 6 if tier == "quick" else 14))):
                add(lens, {"r": r, "c": c})
    nrand = 3000 if tier == "quick" else 40000
    for _ in range(nrand):
        lens = gens.shape_random(rng, 12, 7)
        n, m = len(lens), max(lens) if lens else 0
        r = ragidx.rowsel_random(n, rng)
        c = ragidx.colsel_random(m, rng) if rng.random() < 0.65 else None
        add(lens, {"r": r, "c": c})
    _long_row_cases(rng, add, 150 if tier == "quick" else 1500)
    # SCALE: more than 100,000 rows (selections of more rows than any internal chunk size); implementation vs reference only
    for _ in range(3 if tier == "quick" else 12):
        n = rng.randint(100001, 130000)
        lens = [rng.choice([0, 1, 1, 2]) for _ in range(n)]
        r = rng.choice([{"t": "slice", "a": 1, "b": None, "k": None}, {"t": "slice", "a": None, "b": None, "k": -1}, {"t": "slice", "a": None, "b": -1, "k": 2},
                        {"t": "mask", "bs": [rng.random() < 0.9 for _ in range(n)]}])
        c = rng.choice([None, None, {"t": "slice", "a": None, "b": None, "k": -1}, {"t": "slice", "a": 1, "b": None, "k": None}])
        out.append({"lens": lens, "idx": {"r": r, "c": c}, "dtype": rng.choice(["int64", "int8"]), "vseed": rng.randint(0, 999), "variant": 0, "big": True})
    return out


def _long_row_cases(rng, add, n_cases):
    """rows longer than a narrow integer can count (more than 127 / 255 cells), addressed by integer rows and integer columns of
    either sign given as Python ints and as narrow numpy scalars"""
    for _ in range(n_cases):
        lens = [rng.choice([5, 130, 300, 3, 200, 0, 129]) for _ in range(rng.randint(2, 5))]
        n = len(lens)
        i = rng.randrange(n)
        l = lens[i]
        j = rng.choice([-1, -2, -l, -(l // 2) - 1, l - 1, l // 2, 127, 128, -128, -129, 255, 256]) if l else -1
        add(lens, {"r": {"t": "int", "i": rng.choice([i, i - n])}, "c": {"t": "int", "i": j}}, dt="int64")
        rows = [rng.randrange(n) for _ in range(rng.randint(1, 3))]
        add(lens, {"r": {"t": "list", "is": rows}, "c": {"t": "int", "i": rng.choice([-1, -2, 0, 1, -3])}}, dt="int64")


def key(p):
    if p.get("big"):
        return engine.stable_hash([len(p["lens"]), p["lens"][:20], p["idx"]["r"]["t"], p["idx"]["c"]])
    return engine.stable_hash([p["lens"], p["idx"]])


def nontrivial(p):
    return sum(p["lens"]) > 0


def distribution(ps):
    d = gens.shape_stats([p["lens"] for p in ps])
    d["index_kinds"] = gens.hist(ragidx.idx_kind(p["idx"]) for p in ps)
    d["dtypes"] = gens.hist(p["dtype"] for p in ps)
    return d


def _build(p):
    from npstructures import RaggedArray
    vals = _vals(p)
    # two cases in nine index an array that is itself a RESULT (a selection of all rows, a ufunc, a conversion, ...): a derived array
    # must behave like a freshly built one
    how = gens.DERIVATIONS[(p.get("vseed", 0) + p.get("variant", 0)) % len(gens.DERIVATIONS)] if not p.get("big") else None
    return gens.derive_ra(RaggedArray(vals, list(p["lens"])), how), vals


def run_impl(p):
    def f():
        ra, _ = _build(p)
        return ra[ragidx.py_index(p["idx"], p.get("variant", 0))]
    return guarded(f)


def _canon_res(kind, v, dt):
    dt = np.dtype(dt)
    if kind == "scalar":
        return canon(np.array([v], dtype=dt)[0])
    if kind == "vec":
        return canon(np.array(v, dtype=dt))
    return {"k": "ra", "dt": str(dt), "v": [engine._nest(np.array(r, dtype=dt).tolist()) for r in v]}


def oracle(p):
    vals = _vals(p)
    rows, k = [], 0
    for l in p["lens"]:
        rows.append(list(vals[k:k + l])); k += l
    try:
        kind, v = ragidx.oracle_getitem(rows, p["idx"])
    except ragidx.Refused:
        return refuse()
    return _canon_res(kind, v, p["dtype"])


def lean_request(p):
    if p.get("big"):
        return None
    return {"op": "C02.getitem", "rows": gens.rows_of_ids(p["lens"]), "idx": p["idx"]}


def decode_lean(p, resp):
    vals = _vals(p)
    def conv(j):
        if j.get("refuse"):
            return refuse()
        t, v = j["t"], j["v"]
        if t == "scalar":
            return _canon_res("scalar", vals[v], p["dtype"])
        if t == "vec":
            return _canon_res("vec", [vals[i] for i in v], p["dtype"])
        return _canon_res("ragged", [[vals[i] for i in r] for r in v], p["dtype"])
    return conv(resp["L"]), conv(resp["S"])


same = engine.same


def matches_finding(f, p, impl, expect):
    return False
