"""C19 — results do not depend on the index-width configuration."""
import os, sys, json, random, subprocess, tempfile, importlib
import numpy as np
import engine, gens
from engine import canon, guarded, refuse

ID = "C19"
LEVEL = "proof"
LEVEL_TEXT = ("The Lean model's integers are unbounded, so it has ONE behaviour; C19 is the claim that both configurations of the "
              "implementation have it. Machine-checked: (a) the two row-gather paths agree -- packing an int32 (start, length) pair into "
              "one 64-bit word, gathering words (any selector) and unpacking equals gathering the pairs, for all pairs below 2^32 "
              "(C19_index_rows_paths_agree); (b) no overflow: for every shape with size + 1 < 2^31, every value the geometry and the "
              "gather-index builder compute -- starts, ends, the scattered increments, every partial sum of the cumsum -- lies in "
              "(-2^31, 2^31), so 32-bit arithmetic computes the same integers as the model (C19_no_overflow); (c) the column-slice "
              "arithmetic of a view (kernels K1-K4, GENERATED from /repo's source on every run) computed in wrapping signed 32-bit "
              "integers returns exactly the values of the same kernels over unbounded integers, for every row inside a buffer of at most "
              "2^31 - 1 cells, every slice whose fields are clipped as IndexableArray._bounded_slice clips them, and every Python "
              "integer column (C19_col_slice_w32, C19_col_slice_int_w32 -- theorems about the generated code itself, re-proved when "
              "the source changes). The tie to the code: the implementation side of the C01-C09 cases is executed under "
              "set_dtype(int32) in a separate interpreter and under the default int64, and the two result streams are compared with "
              "each other and with the oracle (values, row lengths, element dtypes, refusals); view-level cases (props/k19.py) run "
              "RaggedView2.col_slice on bare int32 / int64 shape arrays with rows of up to 2^31 - 1 cells against the generated "
              "wrapping kernels, the generated unbounded kernels and CPython's slice arithmetic.")
LEVEL_NOTE = ("Trusted: Lean kernel (+ standard axioms); little-endian layout of the reinterpreted (start, length) words; numpy's rule "
              "that .view() to a different item size needs a contiguous last axis is not expressible in the list model (the fix of "
              "F19a makes the gathered words contiguous) -- that facet is carried by the correspondence; index dtypes of returned "
              "index arrays (int32 vs int64) are not compared, only their values.")
TECHNIQUE = ("Lean 4 proof of path agreement and absence of 32-bit overflow (incl. theorems about kernels generated from the source in "
             "wrapping 32-bit arithmetic); two-configuration differential run of the C01-C09 cases and of view-level column slices")
DESIGN_REF = "7"
LEAN_MODULES = ["NpsVerif.Props.C19"]
GEN_PROOFS = ["NpsVerif.Props.C19D"]     # theorems about the generated kernels Gen.CurW / Gen.Cur themselves
KERNEL_EXTRAS = ("w32",)                  # wrapping 32-bit kernels vs the real methods on int32 shape arrays (kernel_validate)
KERNELS = ("view2_ends", "calc_lengths", "pos_col_slice", "col_slice_slice", "col_slice_int")
RULE = ("cases = view-level column-slice cases (rows up to 2^31 - 1 cells x clipped slice fields / integer columns, through "
        "Lean L/S) plus a seeded sample of the quick-tier cases of C01..C09 (all index kinds, assignments, ufuncs, reductions, scans, "
        "structural functions, column aggregates), each executed under int64 (in process) and int32 (separate interpreter) row "
        "indices; distinct = distinct (property, case); non-trivial = as defined by the originating property")
EXHAUSTIVE = {"quick": False, "thorough": False}
CORRESPONDENCE_ONLY = ["numpy's contiguity rule for .view()", "index dtype of returned index arrays"]
ASSUMPTIONS = ["little-endian platform", "arrays are small enough for 32-bit offsets (size + 1 < 2**31)"]

SOURCES = ["C01", "C02", "C03", "C04", "C05", "C07", "C08", "C09"]
VIEW = "K19"     # props/k19.py: view-level column-slice cases (rows of up to 2**31 - 1 cells, no buffer)
_mods = {}
_cases = []
_int32 = {}


def _mod(pid):
    if pid not in _mods:
        _mods[pid] = importlib.import_module("props." + pid.lower())
    return _mods[pid]


def cases(rng, tier):
    global _cases
    out = []
    per = 700 if tier == "quick" else 8000
    for pid in SOURCES:
        m = _mod(pid)
        cs = m.cases(random.Random(rng.randint(0, 10 ** 9)), "quick")
        rng.shuffle(cs)
        for c in cs[:per]:
            out.append({"prop": pid, "case": c})
    # index arithmetic whose intermediate products / sums leave the 32-bit range while every bound fits: column slices with two
    # or three moderately large bounds / steps of either sign (46341**2 > 2**31), on small arrays
    big = [46341, 65536, 100003, 2 ** 20 + 1, 2 ** 30 - 1, 2 ** 30]
    for _ in range(400 if tier == "quick" else 4000):
        lens = [rng.randint(0, 5) for _ in range(rng.randint(1, 5))]
        def v():
            return rng.choice(big) * rng.choice([1, -1]) if rng.random() < 0.75 else rng.choice([None, 0, 1, -1, 2, -2])
        k = v()
        while k == 0:
            k = v()
        idx = {"r": rng.choice([{"t": "all"}, {"t": "slice", "a": None, "b": None, "k": -1}, {"t": "int", "i": rng.randrange(len(lens))}]),
               "c": {"t": "slice", "a": v(), "b": v(), "k": k}}
        out.append({"prop": "C02", "case": {"lens": lens, "idx": idx, "dtype": "int64", "vseed": rng.randint(0, 999), "variant": rng.randint(0, 29)}})
    # SKEWED arrays: many short rows and one long one -- rows x longest row exceeds 2**31 although the array holds about 10**5 cells
    for _ in range(2 if tier == "quick" else 6):
        n = rng.randint(60000, 75000)
        lens = [rng.choice([0, 1, 1, 2]) for _ in range(n)]
        lens[rng.randrange(n)] = rng.randint(36000, 45000)
        idx = rng.choice([{"r": {"t": "all"}, "c": {"t": "slice", "a": None, "b": 1, "k": None}}, {"r": {"t": "slice", "a": None, "b": None, "k": -1}, "c": None},
                          {"r": {"t": "all"}, "c": {"t": "slice", "a": None, "b": None, "k": -1}}])
        out.append({"prop": "C02", "case": {"lens": lens, "idx": idx, "dtype": "int8", "vseed": rng.randint(0, 999), "variant": 0, "big": True}})
    # integer row / column indices far outside the array that a cast to 32 bits would map onto valid ones (i + 2**32, i - 2**32):
    # refused under both widths
    for _ in range(200 if tier == "quick" else 2000):
        lens = [rng.randint(1, 4) for _ in range(rng.randint(1, 4))]
        n = len(lens)
        i = rng.randint(-n, n - 1)
        j = rng.randint(-lens[i], lens[i] - 1)
        w = lambda v: v + rng.choice([2 ** 32, -2 ** 32, 2 ** 33])
        which = rng.choice(["row", "col", "both", "list"])
        r = {"t": "int", "i": w(i) if which in ("row", "both") else i}
        if which == "list":
            r = {"t": "list", "is": [i, rng.randint(-n, n - 1)]}
        c = {"t": "int", "i": w(j) if which in ("col", "both", "list") else j}
        out.append({"prop": rng.choice(["C02", "C03"]) if False else "C02",
                    "case": {"lens": lens, "idx": {"r": r, "c": c}, "dtype": "int64", "vseed": rng.randint(0, 999), "variant": rng.randint(0, 29)}})
    # NO row selected (empty list, all-false mask, empty slice) next to an integer column of any size: an empty result under both widths
    for _ in range(60 if tier == "quick" else 600):
        lens = [rng.randint(0, 4) for _ in range(rng.randint(1, 4))]
        r = rng.choice([{"t": "list", "is": []}, {"t": "mask", "bs": [False] * len(lens)}, {"t": "slice", "a": 1, "b": 1, "k": None}, {"t": "slice", "a": 5, "b": None, "k": 2}])
        c = {"t": "int", "i": rng.choice([0, 1, -1, 7, 2 ** 31 - 1, 2 ** 31, -(2 ** 31) - 1, 2 ** 40, -(2 ** 40), 2 ** 63 - 1])}
        out.append({"prop": "C02", "case": {"lens": lens, "idx": {"r": r, "c": c}, "dtype": "int64", "vseed": rng.randint(0, 999), "variant": rng.randint(0, 29)}})
    # ragged operands whose shapes differ only in the NUMBER of rows (one empty row against several, none against one, one cell in
    # all): refused under both widths
    for _ in range(60 if tier == "quick" else 600):
        lens, other = rng.choice([([0], [0, 0, 0]), ([0, 0], [0]), ([], [0]), ([0], []), ([], [1]), ([1], []), ([1], [1, 0]), ([0, 0, 0], [0, 0]),
                                  ([2], [2, 0]), ([0, 1], [0, 1, 0]), ([1], [0, 1])])
        out.append({"prop": "C04", "case": {"lens": list(lens), "kind": "ragged_bad", "side": rng.choice(["left", "right"]), "uf": rng.choice(["add", "multiply", "less", "maximum"]),
                                            "dta": rng.choice(["int64", "float64", "bool"]), "dtb": rng.choice(["int64", "int8"]), "vseed": rng.randint(0, 999),
                                            "derived": None, "vmode": "small", "other": list(other)}})
    out += [{"prop": VIEW, "case": c} for c in _mod(VIEW).cases(random.Random(rng.randint(0, 10 ** 9)), tier)]
    _cases = out
    return out


def setup():
    """run every case under int32 indices in a separate interpreter (which first uses the library under 64-bit indices and then
    switches); this process does the opposite: a warm-up under int32, then back to the default"""
    global _int32
    import c19_worker
    from npstructures.raggedshape import ViewBase
    ViewBase.set_dtype(np.int32)
    try:
        c19_worker.warm_up()
    finally:
        ViewBase.set_dtype(np.int64)
    for pid in SOURCES:
        m = _mod(pid)
        if hasattr(m, "setup"):
            m.setup()
    base = os.environ.get("TMPDIR") or "/var/tmp"
    d = tempfile.mkdtemp(prefix="nps-verif-c19-", dir=base)
    try:
        # the engine may also hand us corpus / witness payloads: run whatever it will ask for lazily instead
        fin, fout = os.path.join(d, "in.json"), os.path.join(d, "out.json")
        json.dump(_cases, open(fin, "w"))
        env = dict(os.environ); env["PYTHONDONTWRITEBYTECODE"] = "1"
        p = subprocess.run(["/venv/bin/python", os.path.join(os.path.dirname(os.path.dirname(os.path.abspath(__file__))), "c19_worker.py"), fin, fout],
                           stdout=subprocess.PIPE, stderr=subprocess.PIPE, text=True, env=env, timeout=3000)
        if p.returncode != 0:
            raise engine.InfraError("int32 worker failed: " + p.stderr[-2000:])
        res = json.load(open(fout))
        _int32 = {engine.stable_hash(c): r for c, r in zip(_cases, res)}
    finally:
        import shutil
        shutil.rmtree(d, ignore_errors=True)


def key(p):
    return engine.stable_hash(p)


def nontrivial(p):
    return _mod(p["prop"]).nontrivial(p["case"])


def distribution(ps):
    return {"source_property": gens.hist(p["prop"] for p in ps)}


def _worker_single(p):
    base = os.environ.get("TMPDIR") or "/var/tmp"
    d = tempfile.mkdtemp(prefix="nps-verif-c19-", dir=base)
    try:
        fin, fout = os.path.join(d, "in.json"), os.path.join(d, "out.json")
        json.dump([p], open(fin, "w"))
        q = subprocess.run(["/venv/bin/python", os.path.join(os.path.dirname(os.path.dirname(os.path.abspath(__file__))), "c19_worker.py"), fin, fout],
                           stdout=subprocess.PIPE, stderr=subprocess.PIPE, text=True, timeout=600)
        if q.returncode != 0:
            raise engine.InfraError("int32 worker failed: " + q.stderr[-2000:])
        return json.load(open(fout))[0]
    finally:
        import shutil
        shutil.rmtree(d, ignore_errors=True)


def run_impl(p):
    m = _mod(p["prop"])
    a = m.run_impl(p["case"])
    h = engine.stable_hash(p)
    b = _int32[h] if h in _int32 else _worker_single(p)
    return {"k": "cfg", "prop": p["prop"], "int64": a, "int32": b}


def oracle(p):
    o = _mod(p["prop"]).oracle(p["case"])
    return {"k": "cfg", "prop": p["prop"], "int64": o, "int32": o}


def lean_request(p):
    return _mod(VIEW).lean_request(p["case"]) if p["prop"] == VIEW else None


def decode_lean(p, resp):
    if p["prop"] != VIEW:
        return None, None
    l, s = _mod(VIEW).decode_lean(p["case"], resp)
    # S: the generated kernels over unbounded integers (one behaviour); L: 64-bit = S, 32-bit = the wrapping kernels
    return ({"k": "cfg", "prop": VIEW, "int64": s, "int32": l}, {"k": "cfg", "prop": VIEW, "int64": s, "int32": s})


def _same(m, a, b):
    return (m.same if hasattr(m, "same") else engine.same)(a, b)


def same(a, b):
    # dispatch on the originating property is not available here: structural comparison with the
    # generic rules of the source modules (observation dicts on shared keys, traces, canonical values)
    if not (isinstance(a, dict) and isinstance(b, dict) and a.get("k") == "cfg" and b.get("k") == "cfg"):
        return engine.same(a, b)
    m = _mod(a.get("prop") or b.get("prop"))
    f = m.same if hasattr(m, "same") else engine.same
    return bool(f(a["int64"], b["int64"])) and bool(f(a["int32"], b["int32"]))


def _gen_same(x, y):
    if x is None or y is None:
        return True
    if isinstance(x, dict) and isinstance(y, dict) and x.get("k") == "obs" and y.get("k") == "obs":
        ks = (set(x) & set(y)) - {"k"}
        return bool(ks) and all(_gen_same(x[k], y[k]) for k in ks)
    return engine.same_cells(x, y) or _c07ish(x, y)


def _c07ish(x, y):
    from props import c07
    try:
        return engine.same(c07._norm(x), c07._norm(y))
    except Exception:
        return False


def matches_finding(f, p, impl, expect):
    # findings of the source properties (float rounding classes) apply under both configurations
    m = _mod(p["prop"])
    if f["id"] in ("F05c", "F07b") and hasattr(m, "matches_finding"):
        try:
            sm = m.same if hasattr(m, "same") else engine.same
            ok64 = sm(impl["int64"], expect["int64"]) or m.matches_finding(f, p["case"], impl["int64"], expect["int64"])
            ok32 = sm(impl["int32"], expect["int32"]) or m.matches_finding(f, p["case"], impl["int32"], expect["int32"])
            return ok64 and ok32
        except Exception:
            return False
    return False
