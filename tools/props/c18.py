"""C18 — an npdataclass keeps its columns aligned under every operation."""
import random, dataclasses
import numpy as np
import engine, gens, ragidx
from engine import canon, guarded, refuse

ID = "C18"
LEVEL = "proof"
LEVEL_TEXT = ("Lean 4 theorems for every number of fields >= 1, every common length >= 0, every cell type and every selector: "
              "construction is accepted iff all fields are as long as the first, and the length is that common length; indexing with "
              "a slice of any step / integer list with negatives and repeats / boolean mask selects the same positions in every field, "
              "so the entries (records) of the result are exactly the selected entries of the operand (selection commutes with "
              "zipping the columns); an integer index returns that entry or refuses; iteration yields the entries in order; "
              "concatenation concatenates the entry lists; astype projects every entry onto the target's fields and refuses a missing "
              "field; == holds exactly when the two objects have the same entries (C18_eq); VarLenArray concatenation right-aligns every block in the widest width with zeros on the left. Tied to "
              "npdataclasses.py by correspondence on generated dataclasses with 1-4 fields (1-D and 2-D), lengths 0-5, the row-selector "
              "grammar and lists of 1-3 objects.")
LEVEL_NOTE = ("Trusted: Lean kernel (+ standard axioms); hand model of the field-wise dispatch (tied by correspondence); numpy's own "
              "indexing / concatenate on each field; text rendering is not modelled.")
TECHNIQUE = "Lean 4 proof that field-wise operations commute with zipping columns into entries; correspondence"
DESIGN_REF = "7"
LEAN_MODULES = ["NpsVerif.Props.C18", "NpsVerif.Props.C18B"]
KERNELS = ()
RULE = ("cases = generated dataclass (1..4 fields, each 1-D int / float or 2-D of width 1..3) x common length 0..5 (or deliberately "
        "unequal lengths for the constructor) x operation (constructor, len, index with int / slice / list / mask incl. out-of-range, "
        "iteration, concatenate of 1..3 objects, ==, astype to a narrower / incompatible class, VarLenArray concatenate of 1..3 "
        "matrices of different widths); plus tables whose fields have other element types (floats, uint64 beyond 2**63, bool, datetime64 / timedelta64, narrow integers): entry k by iteration, integer index, one-row list / slice and concatenation, byte for byte; distinct = distinct (fields, operation); non-trivial = length >= 2 and >= 2 fields")
EXHAUSTIVE = {"quick": False, "thorough": False}
CORRESPONDENCE_ONLY = ["dtypes of fields", "broadcasting inside a field comparison (fields of different widths)"]
ASSUMPTIONS = []

_classes = {}


def _cls(names):
    from npstructures import npdataclass
    key = tuple(names)
    if key not in _classes:
        # (every class is called "Rec", whatever its fields: dynamically built record classes under one name are legitimate)
        base = type("Rec", (), {"__annotations__": {n: np.ndarray for n in names}})
        _classes[key] = npdataclass(base)
    return _classes[key]


def _gen_cols(rng, nf, n, bad=False):
    cols = []
    cnt = [0]
    for j in range(nf):
        w = rng.choice([0, 0, 1, 2, 3])      # 0 = 1-D field
        ln = n if not (bad and j == nf - 1) else n + rng.choice([1, 2])
        cells = []
        for _ in range(ln):
            row = []
            for _ in range(max(w, 1)):
                cnt[0] += 1; row.append(cnt[0])
            cells.append(row)
        cols.append({"n": f"f{j}", "w": w, "v": cells})
    return cols


def cases(rng, tier):
    out = []
    for _ in range(900 if tier == "quick" else 12000):
        nf = rng.randint(1, 4)
        n = rng.randint(0, 5)
        f = rng.choice(["ctor", "ctor_bad", "getitem", "getitem", "getitem", "iter", "concat", "eq", "astype", "varlen"])
        p = {"f": f}
        if f == "ctor_bad":
            if nf == 1:
                nf = 2
            p.update(f="ctor", cols=_gen_cols(rng, nf, n, bad=True))
        elif f == "concat":
            k = rng.randint(1, 3)
            base = _gen_cols(rng, nf, n)
            tabs = [base]
            for i in range(k - 1):
                m = rng.randint(0, 4)
                t = []
                for c in base:
                    t.append({"n": c["n"], "w": c["w"], "v": [[rng.randint(100, 199) for _ in range(max(c["w"], 1))] for _ in range(m)]})
                tabs.append(t)
            p["tables"] = tabs
            if k >= 2 and rng.random() < 0.5:
                # the same field with different dtypes in the operands (numpy promotes): a narrower / integer first operand,
                # later operands with values it cannot represent
                p["dts"] = [rng.choice(["int32", "int64", "float64", "uint8"]) for _ in tabs]
                p["offs"] = [{"int32": 0, "uint8": -100, "int64": rng.choice([0, 2 ** 33]), "float64": 0.5}[d] for d in p["dts"]]
        elif f == "varlen":
            mats = []
            for _ in range(rng.randint(1, 3)):
                w = rng.randint(1, 4); r = rng.randint(0, 3)
                mats.append({"w": w, "rows": [[rng.randint(1, 99) for _ in range(w)] for _ in range(r)]})
            p["mats"] = mats
            if rng.random() < 0.5:
                # operands of different element types (numpy promotes): a narrow first operand, later ones it cannot represent
                p["vdts"] = [rng.choice(["int8", "int64", "float64", "uint8", "int32"]) for _ in mats]
        else:
            p["cols"] = _gen_cols(rng, nf, n)
            if f == "getitem":
                p["sel"] = ragidx.rowsel_random(n, rng)
                p["variant"] = rng.randint(0, 1)
                if rng.random() < 0.15:
                    # selectors that select nothing (an all-False mask as a list / as an ndarray, an empty list, an empty slice):
                    # the result is an empty table of the same fields, element types and widths
                    p["sel"] = rng.choice([{"t": "mask", "bs": [False] * n}, {"t": "mask", "bs": [False] * n}, {"t": "list", "is": []}, {"t": "slice", "a": n, "b": None, "k": None}])
            if f == "astype":
                names = [c["n"] for c in p["cols"]]
                k = rng.randint(1, len(names))
                sub = rng.sample(names, k)
                if rng.random() < 0.25:
                    sub = sub + ["zz"]
                p["names"] = sub
            if f == "eq":
                p["flip"] = rng.random() < 0.5
                p["eqmode"] = rng.choice(["plain", "plain", "narrow", "one_cell", "close_big", "close_tiny", "float_same"])
        out.append(p)
    # tables whose fields have OTHER element types (floats, unsigned beyond 2**63, booleans, time stamps and durations at nanosecond
    # resolution, narrow integers): every route to entry k -- iteration, an integer index, a one-row list / slice, the concatenation
    # with itself -- hands out the cells of row k in the field's own element type
    for _ in range(120 if tier == "quick" else 1500):
        nf = rng.randint(1, 3)
        n = rng.randint(1, 5)
        out.append({"f": "typed", "cols": _gen_cols(rng, nf, n), "cdts": [rng.choice(TYPED) for _ in range(nf)]})
    return out


TYPED = ["float64", "uint64", "bool", "datetime64[ns]", "timedelta64[ns]", "datetime64[s]", "int8", "float32", "uint8"]


def _typed_arr(c, dt):
    a = _arr(c)
    if dt == "uint64":
        return a.astype(np.uint64) + np.uint64(2 ** 63)
    if dt == "bool":
        return a % 2 == 0
    if dt.startswith("datetime64"):
        return (a + 1577836800 * (10 ** 9 if dt.endswith("[ns]") else 1)).astype(dt)
    if dt in ("float64", "float32"):
        return a.astype(dt) + 0.5
    return a.astype(dt)


def _cellrep(x):
    x = np.asarray(x)
    return [str(x.dtype), [int(v) for v in x.shape], np.ascontiguousarray(x).tobytes().hex()]


def key(p):
    return engine.stable_hash(p)


def nontrivial(p):
    if "cols" in p:
        return len(p["cols"]) >= 2 and len(p["cols"][0]["v"]) >= 2
    return True


def distribution(ps):
    return {"operations": gens.hist(p["f"] for p in ps),
            "n_fields": gens.hist(len(p["cols"]) for p in ps if "cols" in p),
            "lengths": gens.hist(len(p["cols"][0]["v"]) for p in ps if "cols" in p),
            "selectors": gens.hist(p["sel"]["t"] for p in ps if "sel" in p),
            "unequal_lengths": sum(1 for p in ps if "cols" in p and len({len(c["v"]) for c in p["cols"]}) > 1)}


def _arr(c):
    if c["w"] == 0:
        return np.array([r[0] for r in c["v"]], dtype=np.int64)
    return np.array(c["v"], dtype=np.int64).reshape(len(c["v"]), c["w"])


def _obj(cols, form=0):
    """the table; its columns given positionally (0), all by keyword (1), or the first positionally and the rest by keyword (2)"""
    names = [c["n"] for c in cols]
    arrs = [_arr(c) for c in cols]
    if form == 1:
        return _cls(names)(**dict(zip(names, arrs)))
    if form == 2 and len(cols) >= 2:
        return _cls(names)(arrs[0], **dict(zip(names[1:], arrs[1:])))
    return _cls(names)(*arrs)


def _entries(obj, names):
    out = []
    fields = [np.asarray(getattr(obj, n)) for n in names]
    for i in range(len(fields[0]) if fields else 0):
        out.append([np.atleast_1d(f[i]).tolist() for f in fields])
    return out


def _table(obj, names):
    return {"k": "obs", "entries": canon(_entries(obj, names)), "len": canon(len(obj)), "names": canon(names)}


def _vmat(m, dt):
    """the matrix of a VarLenArray operand in element type dt; 64-bit and float operands hold values a narrow type cannot"""
    a = np.array(m["rows"], dtype=np.int64).reshape(len(m["rows"]), m["w"])
    off = {"int64": 1000, "float64": 0.5, "int32": 300}.get(dt, 0)
    return (a + off).astype(dt)


def run_impl(p):
    from npstructures import VarLenArray
    f = p["f"]
    def g():
        if f == "varlen":
            if "vdts" in p:
                objs = [VarLenArray(_vmat(m, dt)) for m, dt in zip(p["mats"], p["vdts"])]
                res = np.concatenate(objs).array
                return [str(res.dtype), [[float(x) for x in r] for r in res.tolist()]]
            objs = [VarLenArray(np.array(m["rows"], dtype=np.int64).reshape(len(m["rows"]), m["w"])) for m in p["mats"]]
            return np.concatenate(objs).array.tolist()
        if f == "concat" and "dts" in p:
            names = [c["n"] for c in p["tables"][0]]
            objs = [_cls(names)(*[(_arr(c) + off).astype(dt) for c in t]) for t, dt, off in zip(p["tables"], p["dts"], p["offs"])]
            res = np.concatenate(objs)
            o = _table(res, names)
            o["entries"] = canon([[[float(x) for x in cell] for cell in e] for e in _entries(res, names)])
            o["dtypes"] = canon([str(np.asarray(getattr(res, n)).dtype) for n in names])
            return o
        if f == "concat":
            objs = [_obj(t) for t in p["tables"]]
            return _table(np.concatenate(objs), [c["n"] for c in p["tables"][0]])
        names = [c["n"] for c in p["cols"]]
        if f == "typed":
            arrs = [_typed_arr(c, dt) for c, dt in zip(p["cols"], p["cdts"])]
            obj = _cls(names)(*[a.copy() for a in arrs])
            n = len(arrs[0])
            routes = {"iter": lambda k: list(obj)[k], "int": lambda k: obj[k], "neg": lambda k: obj[k - n], "list": lambda k: obj[[k]][0],
                      "slice": lambda k: list(obj[k:k + 1])[0], "concat": lambda k: np.concatenate([obj, obj])[n + k]}
            o = {"k": "obs"}
            for rn, get in routes.items():
                o[rn] = guarded(lambda: canon([[_cellrep(getattr(get(k), nm)) for nm in names] for k in range(n)]))
            return o
        obj = _obj(p["cols"], (len(str(p["cols"])) % 3) if f == "ctor" else 0)
        if f == "ctor":
            return _table(obj, names)
        if f == "getitem":
            sel = p["sel"]
            if sel["t"] == "int":
                r = obj[sel["i"]]
                return [np.atleast_1d(np.asarray(getattr(r, n))).tolist() for n in names]
            idx = ragidx.py_rowsel(sel, p.get("variant", 1))      # lists and masks as Python lists (even) or ndarrays (odd)
            if sel["t"] == "all":
                idx = slice(None)
            r = obj[idx]
            o = _table(r, names)
            # the selection is a table of its own: iterating it, selecting all of it again, concatenating it with nothing and
            # comparing it with itself must agree with its entries; the source is unchanged
            if len(r):
                it = [[np.atleast_1d(np.asarray(getattr(e, n))).tolist() for n in names] for e in list(r)]
                again = _table(r[:], names)
                if it != _entries(r, names) or again != o or not bool(r == r[:]) or _entries(obj, names) != _entries(_obj(p["cols"]), names):
                    raise engine.Inconsistent("a selected table does not behave like a table holding its entries")
            # the fields of the selection keep their element type and width, also when nothing is selected
            o["field_types"] = canon([[str(np.asarray(getattr(r, n)).dtype), [int(x) for x in np.asarray(getattr(r, n)).shape[1:]]] for n in names])
            return o
        if f == "iter":
            # the entries are collected first and read afterwards (list(table), sorted(table, ...)): each is an entry of its own
            es = list(obj)
            kept = [[np.atleast_1d(np.asarray(getattr(r, n))).tolist() for n in names] for r in es]
            as_we_go = [[np.atleast_1d(np.asarray(getattr(r, n))).tolist() for n in names] for r in obj]
            if kept != as_we_go:
                raise engine.Inconsistent("entries kept from an iteration differ from the entries seen while iterating")
            return kept
        if f == "eq" and p.get("eqmode") in ("close_big", "close_tiny", "float_same") and len(obj) >= 1:
            # float fields whose tables differ in ONE cell by less than any sensible tolerance (1 in 1e8, or 4e-9 against 8e-9), and
            # equal float tables: equality of tables is equality of cells
            sc = 1e6 if p["eqmode"] != "close_tiny" else 1e-10
            arrs = [(_arr(c).astype(np.float64) + 1.0) * sc for c in p["cols"]]
            other_arrs = [x.copy() for x in arrs]
            if p["eqmode"] == "close_big":
                other_arrs[-1].reshape(-1)[-1] += 1.0
            elif p["eqmode"] == "close_tiny":
                other_arrs[0].reshape(-1)[0] *= 2.0
            return bool(_cls(names)(*arrs) == _cls(names)(*other_arrs))
        if f == "eq" and p.get("eqmode") in ("narrow", "one_cell") and len(obj) >= 1:
            arrs = [_arr(c) for c in p["cols"]]
            j = next((i for i, a in enumerate(arrs) if a.ndim == 2 and a.shape[1] >= 2), None)
            if p["eqmode"] == "narrow" and j is not None:
                # a 2-D field whose rows are constant, against the same table with that field one column wide: different tables,
                # although the fields are equal after broadcasting
                wide = np.repeat(arrs[j][:, :1], arrs[j].shape[1], axis=1)
                a = _cls(names)(*[wide if i == j else x for i, x in enumerate(arrs)])
                b = _cls(names)(*[wide[:, :1] if i == j else x for i, x in enumerate(arrs)])
                return bool(a == b)
            # one cell of one field differs
            other_arrs = [x.copy() for x in arrs]
            other_arrs[-1].reshape(-1)[-1] += 1
            return bool(obj == _cls(names)(*other_arrs))
        if f == "eq":
            other = _obj(p["cols"])
            if p["flip"] and len(obj) >= 2:
                other = other[::-1]
                return bool(obj == other)
            return bool(obj == other)
        if f == "astype":
            tgt = _cls(p["names"])
            return _table(obj.astype(tgt), p["names"])
    return guarded(g)


def _raw_entries(cols):
    n = len(cols[0]["v"])
    return [[list(c["v"][i]) for c in cols] for i in range(n)]


def oracle(p):
    f = p["f"]
    if f == "varlen" and "vdts" in p:
        w = max((m["w"] for m in p["mats"]), default=0)
        rdt = np.result_type(*[np.dtype(d) for d in p["vdts"]])
        rows = []
        for m, dt in zip(p["mats"], p["vdts"]):
            for r in _vmat(m, dt).astype(rdt).tolist():
                rows.append([0.0] * (w - m["w"]) + [float(x) for x in r])
        return canon([str(rdt), rows])
    if f == "varlen":
        w = max((m["w"] for m in p["mats"]), default=0)
        rows = []
        for m in p["mats"]:
            for r in m["rows"]:
                rows.append([0] * (w - m["w"]) + list(r))
        return canon(rows)
    if f == "concat" and "dts" in p:
        names = [c["n"] for c in p["tables"][0]]
        rdt = np.result_type(*p["dts"])
        ents = []
        for t, dt, off in zip(p["tables"], p["dts"], p["offs"]):
            for e in _raw_entries(t):
                ents.append([[float(np.array([x + off]).astype(dt).astype(rdt)[0]) for x in cell] for cell in e])
        return {"k": "obs", "entries": canon(ents), "len": canon(len(ents)), "names": canon(names), "dtypes": canon([str(rdt)] * len(names))}
    if f == "concat":
        ents = [e for t in p["tables"] for e in _raw_entries(t)]
        names = [c["n"] for c in p["tables"][0]]
        return {"k": "obs", "entries": canon(ents), "len": canon(len(ents)), "names": canon(names)}
    cols = p["cols"]
    names = [c["n"] for c in cols]
    if f == "typed":
        arrs = [_typed_arr(c, dt) for c, dt in zip(cols, p["cdts"])]
        want = canon([[_cellrep(a[k]) for a in arrs] for k in range(len(arrs[0]))])
        return {"k": "obs", **{rn: want for rn in ("iter", "int", "neg", "list", "slice", "concat")}}
    if len({len(c["v"]) for c in cols}) > 1:
        return refuse()
    ents = _raw_entries(cols)
    if f == "ctor":
        return {"k": "obs", "entries": canon(ents), "len": canon(len(ents)), "names": canon(names)}
    if f == "getitem":
        sel = p["sel"]
        try:
            rows, is_int = ragidx.select_rows(ents, sel)
        except ragidx.Refused:
            return refuse()
        if is_int:
            return canon(rows[0])
        return {"k": "obs", "entries": canon([list(r) for r in rows]), "len": canon(len(rows)), "names": canon(names),
                "field_types": canon([["int64", [c["w"]] if c["w"] else []] for c in p["cols"]])}
    if f == "iter":
        return canon(ents)
    if f == "eq" and p.get("eqmode") in ("close_big", "close_tiny", "float_same") and len(ents) >= 1:
        return canon(p["eqmode"] == "float_same")
    if f == "eq" and p.get("eqmode") in ("narrow", "one_cell") and len(ents) >= 1:
        return canon(False)
    if f == "eq":
        if p["flip"] and len(ents) >= 2:
            return canon(ents == ents[::-1])
        return canon(True)
    if f == "astype":
        if any(n not in names for n in p["names"]):
            return refuse()
        idx = [names.index(n) for n in p["names"]]
        pe = [[e[i] for i in idx] for e in ents]
        return {"k": "obs", "entries": canon(pe), "len": canon(len(pe)), "names": canon(p["names"])}


def lean_request(p):
    f = p["f"]
    def cols(cs):
        return [{"n": c["n"], "v": c["v"]} for c in cs]
    if f == "varlen" and "vdts" in p:
        return None
    if f == "typed":
        return None
    if f == "varlen":
        return {"op": "DC.run", "f": "varlen", "mats": p["mats"]}
    if f == "concat" and "dts" in p:
        return None
    if f == "concat":
        return {"op": "DC.run", "f": "concat", "tables": [cols(t) for t in p["tables"]]}
    if f == "eq":
        if p.get("eqmode") in ("narrow", "close_big", "close_tiny", "float_same"):
            return None      # float cells / fields of different widths: numpy's broadcasting inside the field comparison is not in the model
        c1 = cols(p["cols"])
        if len(c1) == 0 or len(c1[0]["v"]) == 0:
            return None
        import copy
        c2 = copy.deepcopy(c1)
        if p.get("eqmode") == "one_cell":
            last = c2[-1]["v"][-1]
            last[-1] = last[-1] + 1
        elif p.get("flip") and len(c1[0]["v"]) >= 2:
            for c in c2:
                c["v"] = c["v"][::-1]
        return {"op": "DC.run", "f": "eq", "cols": c1, "cols2": c2}
    r = {"op": "DC.run", "f": f, "cols": cols(p["cols"])}
    if f == "getitem":
        r["sel"] = p["sel"]
    if f == "astype":
        r["names"] = p["names"]
    return r


def decode_lean(p, resp):
    f = p["f"]
    def conv(j):
        if isinstance(j, dict) and j.get("refuse"):
            return refuse()
        if f == "varlen":
            return canon([[(c[0] if c else 0) for c in row] for row in j])
        if isinstance(j, dict):
            return {"k": "obs", "entries": canon(j["entries"]), "len": canon(j["len"]), "names": canon(j["names"])}
        return canon(j)
    return conv(resp["L"]), conv(resp["S"])


def same(a, b):
    if isinstance(a, dict) and isinstance(b, dict) and a.get("k") == "obs" and b.get("k") == "obs":
        ks = (set(a) & set(b)) - {"k"}
        return bool(ks) and all(engine.same(a[k], b[k]) for k in ks)
    return engine.same(a, b)


def matches_finding(f, p, impl, expect):
    return False
