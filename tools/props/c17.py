"""C17 — 2-D and ragged run-length arrays behave as one run-length array per row."""
import random, json, warnings
import numpy as np
import engine, gens, ragidx
from engine import canon, guarded, refuse

ID = "C17"
LEVEL = "proof"
LEVEL_TEXT = ("Lean 4 theorems for every matrix / ragged array with rows of length >= 1 and every run pattern: the models of "
              "RunLength2dArray.from_array, RunLengthRaggedArray.from_ragged_array and from_intervals keep boundaries and values in "
              "lock-step row by row (every row is a valid RunLengthArray) and decode to exactly the input (indicator matrix for "
              "intervals); row selection (slice / list / mask / integer), element access, integer columns on the ragged variant, "
              "row-wise sum / any / all / max, column sums (global stable sort of boundary differences), column counts, ravel, "
              "concatenation and unary / scalar / column ufuncs with operand order respected decode to the same operation on the "
              "dense rows. Column RANGES rl[rows, a:b:s] on the ragged variant (the 70-line case analysis of _getitem_tuple + "
              "_step_subset + remove_empty_intervals, modelled row by row) decode, on the property's domain -- the slice is non-empty "
              "in every selected row, and for a negative step the bounds lie inside the row -- to CPython's slice of every selected "
              "dense row (C17_col_range, C17_col_range_row); outside that domain the code is wrong and two machine-checked "
              "counterexamples say so. argmax (first run holding the row maximum) and the matrix variant's any(axis=0) (union of the True "
              "intervals of all rows by a sweep over independently sorted starts and ends) are proved as well (C17_argmax, C17_col_any); "
              "mean is tied by the correspondence only. Correspondence: all matrices <= 3x4 over 2 letters, ragged arrays with lengths >= 1, the full "
              "selector grammar restricted to the property's domain, all listed functions, against numpy on the dense data.")
LEVEL_NOTE = ("Trusted: Lean kernel (+ standard axioms); the model is written against the list-of-rows meaning of the RaggedArray "
              "operations these classes use (C02-C09 theorems) and tied by correspondence (no pinned test touches this module); float "
              "sum/mean follow F16a. mean (float division) is a correspondence-only facet.")
TECHNIQUE = "Lean 4 proof of per-row decode = dense semantics for constructors, selection, reductions, ufuncs; correspondence"
DESIGN_REF = "7"
LEAN_MODULES = ["NpsVerif.Props.C17A", "NpsVerif.Props.C17B", "NpsVerif.Props.C17C", "NpsVerif.Props.C17D", "NpsVerif.Props.C17E"]
KERNELS = ()
RULE = ("cases = input (matrix r x c <= 3x4 over 2-3 letters exhaustive-sampled / ragged array with row lengths 1..4 / interval list) "
        "x class (RunLength2dArray, RunLengthRaggedArray) x operation (to_array, len/shape/size, row int / slice / list / mask, "
        "element, integer column, column range with positive step (any bounds, non-empty result) or negative step (bounds inside "
        "the rows; 700 extra stepped column-range cases per quick run), row-wise sum any all max mean argmax, column sum / mean / counts / any, ravel, concatenate, np.sum/mean/max, "
        "unary / scalar / column ufunc on either side; column-wise any both of a comparison result and of the matrix's own cells); distinct = distinct (input, class, operation); non-trivial = >= 2 rows or >= 2 runs")
EXHAUSTIVE = {"quick": False, "thorough": False}
CORRESPONDENCE_ONLY = ["mean (float division)", "np.where on ragged run-length arrays"]
ASSUMPTIONS = ["rows have length >= 1 (the property's domain)"]

ROW_OPS = ["to_array", "meta", "row_int", "rows", "element", "sum", "any", "all", "unary", "scalar", "column", "col_sum"]
RAGGED_OPS = ["max", "argmax", "mean", "mean0", "col_counts", "ravel", "concat", "np.sum", "np.mean", "np.max", "col_int", "col_range"]
MATRIX_OPS = ["any0"]
HYBRID_OPS = {"to_array", "row_int", "rows", "element", "sum", "any", "all", "unary", "scalar", "col_sum", "max", "argmax", "mean", "mean0", "col_counts", "np.sum", "np.mean", "np.max"}


def _gen_input(rng):
    k = rng.choice(["matrix", "matrix", "ragged", "ragged", "ragged", "intervals", "ragged_large", "matrix_sparse"])
    if k == "matrix_sparse":
        # a wider matrix of mostly zero cells with a few short non-zero stretches per row, anywhere in the row
        r, c = rng.randint(2, 4), rng.randint(3, 7)
        rows = []
        for _ in range(r):
            row = [0] * c
            for _ in range(rng.randint(0, 2)):
                a = rng.randrange(c); b = min(c, a + rng.randint(1, 2)); v = rng.choice([1, 2, 3])
                row[a:b] = [v] * (b - a)
            rows.append(row)
        return {"kind": "matrix", "rows": rows}
    if k == "ragged_large":
        # many rows with many coincident boundaries: sorts of > 16 keys with ties (stability matters)
        r = rng.randint(8, 14)
        rows = []
        for _ in range(r):
            l = rng.randint(2, 7)
            row, v = [], rng.choice([1, 2])
            for _ in range(l):
                if rng.random() < 0.5:
                    v = rng.choice([1, 2, 3])
                row.append(v)
            rows.append(row)
        return {"kind": "ragged", "rows": rows}
    if k == "matrix":
        r, c = rng.randint(1, 3), rng.randint(1, 4)
        # (cell class 0 is the value 0 -- a cell equal to the padding the encoder compares the first column with)
        return {"kind": "matrix", "rows": [[rng.choice([0, 1, 2, 2, 3]) for _ in range(c)] for _ in range(r)]}
    if k == "ragged":
        r = rng.randint(1, 4)
        rows = []
        for _ in range(r):
            l = rng.randint(1, 5)
            row, v = [], rng.choice([0, 1, 2])
            for _ in range(l):
                if rng.random() < 0.4:
                    v = rng.choice([0, 1, 2, 3])
                row.append(v)
            rows.append(row)
        return {"kind": "ragged", "rows": rows}
    L = rng.randint(1, 5)
    ivs = []
    for _ in range(rng.randint(1, 3)):
        s = rng.randint(0, L - 1); e = rng.randint(s + 1, L)
        ivs.append([s, e])
    return {"kind": "intervals", "ivs": ivs, "L": L}


def _dense(inp):
    if inp["kind"] == "intervals":
        return [[1 if s <= c < e else 0 for c in range(inp["L"])] for s, e in inp["ivs"]]
    return [list(r) for r in inp["rows"]]


def cases(rng, tier):
    out = []
    n_main = 2500 if tier == "quick" else 40000
    n_colrange = 700 if tier == "quick" else 10000     # extra column-range cases on the ragged variant (stepped, both signs)
    for it in range(n_main + n_colrange):
        inp = _gen_input(rng)
        dense = _dense(inp)
        r = len(dense); lens = [len(x) for x in dense]; m = min(lens); w = max(lens)
        cls = "2d" if inp["kind"] in ("matrix", "intervals") and rng.random() < 0.6 else "ragged"
        if inp["kind"] == "ragged":
            cls = "ragged"
        ops = ROW_OPS + (RAGGED_OPS if cls == "ragged" else MATRIX_OPS)
        f = rng.choice(ops)
        if it >= n_main:
            cls, f = "ragged", "col_range"
        p = {"inp": inp, "cls": cls, "f": f, "dtype": rng.choice(["int64", "int64", "int32", "float64", "uint8", "uint64", "int8", "float32"])}
        if f in ("sum", "max", "argmax", "mean", "any", "all", "col_sum", "mean0", "any0", "np.sum", "np.mean", "np.max"):
            # how the axis is spelled: row-wise as -1 / 1 / left to the default / positional; column-wise as 0 / -2
            p["ax"] = rng.randint(0, 3)
            if f == "any0":
                p["thr"] = rng.choice([0, 1, 1, 2])
                if rng.random() < 0.35:
                    p["raw"] = True      # any(axis=0) of the matrix itself (its cells' truth values), not of a comparison result
        if f in ("rows", "col_int", "col_range"):
            p["variant"] = rng.choice([0, 1, 2, 3])      # list / mask row selectors as plain Python lists (even) or ndarrays (odd)
        if f in ("rows", "col_int", "col_range") and rng.random() < 0.25:
            # rl[..., cols] / rl[rows, ...] / rl[(rows,)]; a trailing Ellipsis stands for the column range [:], which the property
            # promises for the ragged variant only
            p["ell"] = rng.choice(["left", "right", "tuple"] if cls == "ragged" else ["left", "tuple"])
        if inp["kind"] != "intervals" and p["dtype"] in ("float64", "float32") and rng.random() < 0.35:
            p["vmap"] = "near"
        elif inp["kind"] != "intervals" and rng.random() < 0.2:
            p["vmap"] = "big"         # cell classes 1, 2, 3 stand for max, max - 1, 1 of the dtype: products value x run length leave a narrow dtype
        if inp["kind"] == "matrix" and rng.random() < 0.3:
            p["order"] = rng.choice(["F", "T"])     # the input matrix is Fortran-ordered / a transposed view
        if f == "row_int":
            p["i"] = rng.randint(-r, r - 1)
        elif f == "rows":
            sel = ragidx.rowsel_random(r, rng)
            if sel["t"] == "int":
                sel = {"t": "all"}
            p["sel"] = sel
        elif f == "element":
            i = rng.randint(-r, r - 1); p["i"] = i; p["j"] = rng.randint(-lens[i], lens[i] - 1)
        elif f == "col_int":
            p["j"] = rng.randint(-m, m - 1)
            p["jform"] = rng.choice(["int", "int", "int64", "int32", "intp"])      # the column as a Python int or a numpy integer scalar
            p["rsel"] = rng.choice([{"t": "all"}, {"t": "slice", "a": None, "b": None, "k": -1}])
            longer = [i for i in range(r) if lens[i] > m]
            if cls == "ragged" and longer and rng.random() < 0.5:
                # only the LONGER rows are selected (list, mask or a slice over a run of them) and the column exists in all of
                # them -- though not in every row of the array
                sel_rows = sorted(rng.sample(longer, rng.randint(1, len(longer))))
                m_sel = min(lens[i] for i in sel_rows)
                p["j"] = rng.choice([rng.randint(m, m_sel - 1), -rng.randint(m + 1, m_sel)])
                how = rng.choice(["list", "mask", "list_perm"])
                if how == "list":
                    p["rsel"] = {"t": "list", "is": sel_rows}
                elif how == "list_perm":
                    pr = list(sel_rows); rng.shuffle(pr)
                    p["rsel"] = {"t": "list", "is": [i if rng.random() < 0.7 else i - r for i in pr]}
                else:
                    p["rsel"] = {"t": "mask", "bs": [i in sel_rows for i in range(r)]}
        elif f == "col_range":
            for _ in range(30):
                a = rng.choice([None] + list(range(-w, w + 1))); b = rng.choice([None] + list(range(-w, w + 1)))
                s = rng.choice([None, 1, 1, 2, 3, -1, -1, -2] if it < n_main else [2, 3, -1, -2, -2, -3, -3])
                exp = [x[a:b:s] for x in dense]
                if any(len(e) == 0 for e in exp):
                    continue
                if s is not None and s < 0 and ((a is not None and not (-m <= a < m)) or (b is not None and not (-m <= b < m))):
                    continue
                break
            else:
                a, b, s = None, None, None
            p.update(a=a, b=b, s=s, rsel=rng.choice([{"t": "all"}, {"t": "slice", "a": None, "b": None, "k": -1}, {"t": "slice", "a": None, "b": None, "k": 2},
                                                     {"t": "list", "is": [rng.randint(-r, r - 1) for _ in range(rng.randint(1, 3))]},
                                                     {"t": "mask", "bs": [True] + [rng.random() < 0.6 for _ in range(r - 1)]}]))
        elif f == "scalar":
            p.update(c={"int8": 100, "uint8": 200, "float32": 0.1}[p["dtype"]] if (p["dtype"] in ("int8", "uint8", "float32") and rng.random() < 0.5) else
                     rng.randint(0 if p["dtype"] in ("uint8", "uint64") else -3, 9), side=rng.choice(["left", "right"]), uf=rng.choice(["subtract", "add", "multiply", "less", "maximum"]))
        elif f == "column":
            p.update(col=[rng.randint(0 if p["dtype"] in ("uint8", "uint64") else -3, 9) for _ in range(r)], side=rng.choice(["left", "right"]), uf=rng.choice(["subtract", "add", "less"]))
        out.append(p)
    # column-wise any of the matrix variant over sparse matrices: non-zero stretches of later rows that END before stretches of
    # earlier rows, all-zero columns in between (the union of the rows' intervals has to be taken in sorted order)
    for _ in range(150 if tier == "quick" else 2000):
        r, c = rng.randint(2, 4), rng.randint(4, 8)
        rows = []
        for i in range(r):
            row = [0] * c
            for _ in range(rng.randint(1, 2)):
                a = rng.randrange(c); b = min(c, a + rng.randint(1, 2)); v = rng.choice([1, 2, 3])
                row[a:b] = [v] * (b - a)
            rows.append(row)
        out.append({"inp": {"kind": "matrix", "rows": rows}, "cls": "2d", "f": "any0", "dtype": rng.choice(["int64", "uint8", "float64", "int32"]),
                    "ax": rng.randint(0, 3), "thr": rng.choice([0, 0, 0, 1])})
        if rng.random() < 0.5:
            out[-1]["raw"] = True
    return out


def key(p):
    return engine.stable_hash({k: v for k, v in p.items() if k != "dtype"})


def nontrivial(p):
    d = _dense(p["inp"])
    return len(d) >= 2 or any(len(set(r)) >= 2 for r in d)


def distribution(ps):
    return {"input_kinds": gens.hist(p["inp"]["kind"] for p in ps), "classes": gens.hist(p["cls"] for p in ps),
            "operations": gens.hist(p["f"] for p in ps),
            "col_range_negative_step": sum(1 for p in ps if p["f"] == "col_range" and p.get("s") is not None and p["s"] < 0)}


def _vmapped(p, rows):
    if p.get("vmap") == "near":
        # cell classes stand for floating-point values that are different but close (0.3 / 0.1 + 0.2 / 0.3 - 4e-17), or far below 1
        m = {0: 0.0, 1: 0.3, 2: 0.1 + 0.2, 3: 1e-9} if np.dtype(p["dtype"]) == np.float64 else {0: 0.0, 1: 1.0, 2: float(np.nextafter(np.float32(1.0), np.float32(2.0))), 3: 1e-9}
        return [[m[v] for v in r] for r in rows]
    if p.get("vmap") != "big":
        return rows
    dt = np.dtype(p["dtype"])
    big = int(np.iinfo(dt).max) if dt.kind in "iu" else (1e308 if dt == np.float64 else 3e38)
    m = {0: 0, 1: big, 2: big - 1 if dt.kind in "iu" else big / 2, 3: 1}
    return [[m[v] for v in r] for r in rows]


def _build(p):
    from npstructures import RaggedArray, RunLength2dArray, RunLengthRaggedArray
    inp = p["inp"]; dt = p["dtype"]
    if inp["kind"] == "intervals":
        ivs = np.array(inp["ivs"])
        rl = RunLength2dArray.from_intervals(ivs[:, 0], ivs[:, 1], inp["L"])
        if p["cls"] == "ragged":
            if p["f"] in HYBRID_OPS and len(str(inp)) % 2 == 0 and not p.get("ell"):      # (an Ellipsis next to the rows stands for a column range)
                # the ragged class built through the (inherited) from_intervals: for the operations that do not address columns
                return RunLengthRaggedArray.from_intervals(ivs[:, 0], ivs[:, 1], inp["L"])
            dense = np.array(_dense(inp))
            return RunLengthRaggedArray.from_array(dense)
        return rl
    rows = _vmapped(p, inp["rows"])
    if inp["kind"] == "matrix":
        m = np.array(rows, dtype=dt)
        if p.get("order") == "F":
            m = np.asfortranarray(m)
        elif p.get("order") == "T":
            m = np.ascontiguousarray(m.T).T
        if p.get("order") is None and not p.get("vmap") and len(str(rows)) % 3 == 0 and dt in ("int64", "float64"):
            m = m.tolist()          # the matrix as a nested Python list (numpy's default element type for it is the requested one)
        return (RunLength2dArray if p["cls"] == "2d" else RunLengthRaggedArray).from_array(m)
    ra = RaggedArray(np.array([v for r in rows for v in r], dtype=dt), [len(r) for r in rows])
    return RunLengthRaggedArray.from_ragged_array(ra)


def _mixed_concat(p):
    return p["cls"] == "ragged" and not p.get("vmap") and len(str(p["inp"])) % 2 == 0


def _if(p, i, salt=0):
    """an integer index as a Python int or as a numpy integer scalar (chosen from the case, deterministically)"""
    forms = gens.INT_FORMS
    return gens.int_form(i, forms[(len(str(p.get("inp"))) + abs(i) + salt) % len(forms)])


def _norm(x):
    from npstructures import RaggedArray, RunLengthArray
    if hasattr(x, "to_array") and not isinstance(x, np.ndarray):
        n = getattr(x, "size", 0)
        if isinstance(n, (int, np.integer)) and n > 20_000_000:
            # an absurdly long result computed from a small operand: described, not decoded (decoding would exhaust memory)
            return {"huge_result": int(n)}
        x = x.to_array()
    if isinstance(x, RaggedArray):
        return [[_n(v) for v in r] for r in x.tolist()]
    if isinstance(x, np.ndarray):
        return _nl(x.tolist())
    if isinstance(x, (list, tuple)):
        return [_norm(v) for v in x]
    return _n(x)


def _n(v):
    if isinstance(v, (bool, np.bool_)):
        return bool(v)
    if isinstance(v, (int, np.integer)):
        return int(v)
    if isinstance(v, (float, np.floating)):
        return float(v)
    return v


def _nl(x):
    return [_nl(v) for v in x] if isinstance(x, list) else _n(x)


def run_impl(p):
    f = p["f"]
    def g():
        # the operation, the operand afterwards (nothing may have been written into it), and the operation once more
        with np.errstate(all="ignore"), warnings.catch_warnings():
            warnings.simplefilter("ignore")
            rl = _build(p)
            before = _norm(rl.to_array())
        first = op(rl)
        with np.errstate(all="ignore"), warnings.catch_warnings():
            warnings.simplefilter("ignore")
            if json.dumps(_norm(rl.to_array()), default=str) != json.dumps(before, default=str):
                raise engine.Inconsistent("the operation changed its operand")
        second = op(rl)
        if json.dumps(first, default=str) != json.dumps(second, default=str):
            raise engine.Inconsistent("the same operation on the same object gave two different results")
        return first
    def op(rl):
        with np.errstate(all="ignore"), warnings.catch_warnings():
            warnings.simplefilter("ignore")
            if f == "to_array":
                return {"k": "val", "v": _norm(rl.to_array())}
            if f == "meta":
                sh = rl.shape
                return {"k": "val", "v": [len(rl), _norm(sh[0]), _norm(np.asarray(sh[1]).tolist()) if p["cls"] == "ragged" else _n(sh[1]), _n(rl.size)]}
            if f == "row_int":
                return {"k": "val", "v": _norm(rl[_if(p, p["i"])])}
            if f == "rows":
                rs = ragidx.py_rowsel(p["sel"], p.get("variant", 1)) if p["sel"]["t"] != "all" else slice(None)
                ell = p.get("ell")      # the same selection spelled with an Ellipsis / as a 1-tuple
                return {"k": "val", "v": _norm(rl[(rs, Ellipsis)] if ell == "right" else rl[(rs,)] if ell == "tuple" else rl[rs])}
            if f == "element":
                return {"k": "val", "v": _norm(rl[_if(p, p["i"]), _if(p, p["j"], 1)])}
            if f == "col_int":
                j = p["j"] if p.get("jform", "int") == "int" else np.dtype(p["jform"]).type(p["j"])
                if p["rsel"]["t"] == "all" and p.get("ell") == "left":
                    return {"k": "val", "v": _norm(rl[..., j])}
                return {"k": "val", "v": _norm(rl[ragidx.py_rowsel(p["rsel"], p.get("variant", 1)) if p["rsel"]["t"] != "all" else slice(None), j])}
            if f == "col_range":
                rs = ragidx.py_rowsel(p["rsel"], p.get("variant", 1)) if p["rsel"]["t"] != "all" else slice(None)
                if p["rsel"]["t"] == "all" and p.get("ell") == "left":
                    return {"k": "val", "v": _norm(rl[..., slice(p["a"], p["b"], p["s"])])}
                return {"k": "val", "v": _norm(rl[rs, slice(p["a"], p["b"], p["s"])])}
            ax = p.get("ax", 0)
            if f in ("sum", "max", "argmax", "mean"):
                # (sum's own default is not row-wise: it is always given an axis)
                kw = {"axis": -1} if ax in (0, 3) or (ax == 2 and f == "sum") else {"axis": 1} if ax == 1 else {}
                return {"k": "val", "v": _norm(getattr(rl, f)(**kw))}
            if f in ("any", "all"):
                return {"k": "val", "v": _norm(getattr(rl > 1, f)(axis=1 if ax == 1 else -1))}
            cax = -2 if ax % 2 else 0
            if f == "col_sum":
                return {"k": "val", "v": _norm((np.sum(rl, 0) if len(str(p["inp"])) % 2 else np.sum(rl, axis=0)) if ax == 2 else rl.sum(axis=cax))}
            if f == "mean0":
                return {"k": "val", "v": _norm((np.mean(rl, 0) if len(str(p["inp"])) % 2 else np.mean(rl, axis=0)) if ax == 2 else rl.mean(axis=cax))}
            if f == "any0":
                thr = p.get("thr", 1)
                if p.get("raw"):
                    return {"k": "val", "v": _norm(np.any(rl, axis=0) if ax == 2 else rl.any(axis=cax))}
                return {"k": "val", "v": _norm(np.any(rl > thr, axis=0) if ax == 2 else (rl > thr).any(axis=cax))}
            if f == "col_counts":
                return {"k": "val", "v": _norm(rl.col_counts())}
            if f == "ravel":
                return {"k": "val", "v": _norm(rl.ravel())}
            if f == "concat":
                if _mixed_concat(p):
                    return {"k": "val", "v": _norm(np.concatenate([rl, rl * 1.5, rl]))}       # pieces of different element types
                return {"k": "val", "v": _norm(np.concatenate([rl, rl]))}
            if f in ("np.sum", "np.mean", "np.max"):
                return {"k": "val", "v": _norm(getattr(np, f[3:])(rl, -1) if ax % 2 else getattr(np, f[3:])(rl, axis=-1))}
            if f == "unary":
                return {"k": "val", "v": _norm(-rl)}
            if f == "scalar":
                uf = getattr(np, p["uf"])
                return {"k": "val", "v": _norm(uf(rl, p["c"]) if p["side"] == "right" else uf(p["c"], rl))}
            if f == "column":
                uf = getattr(np, p["uf"]); col = np.array(p["col"]).reshape(-1, 1)
                return {"k": "val", "v": _norm(uf(rl, col) if p["side"] == "right" else uf(col, rl))}
    return guarded(g)


def oracle(p):
    f = p["f"]
    dense = _vmapped(p, _dense(p["inp"])) if p["inp"]["kind"] != "intervals" else _dense(p["inp"])
    dt = np.dtype(p["dtype"]) if p["inp"]["kind"] != "intervals" else np.dtype("int64")
    rows = [np.array(r, dtype=dt) for r in dense]
    r = len(rows); w = max(len(x) for x in rows)
    def sel_rows(sel):
        sub, _ = ragidx.select_rows(list(range(r)), sel)
        return sub
    try:
        with np.errstate(all="ignore"), warnings.catch_warnings():
            warnings.simplefilter("ignore")
            if f == "to_array":
                v = [x.tolist() for x in rows]
            elif f == "meta":
                lens = [len(x) for x in rows]
                v = [r, r, lens if p["cls"] == "ragged" else lens[0], sum(lens)]
            elif f == "row_int":
                v = rows[p["i"]].tolist()
            elif f == "rows":
                v = [rows[i].tolist() for i in sel_rows(p["sel"])]
            elif f == "element":
                v = rows[p["i"]][p["j"]]
            elif f == "col_int":
                v = [rows[i][p["j"]] for i in sel_rows(p["rsel"])]
            elif f == "col_range":
                v = [rows[i][slice(p["a"], p["b"], p["s"])].tolist() for i in sel_rows(p["rsel"])]
            elif f in ("sum", "np.sum"):
                v = [x.sum() for x in rows]
            elif f in ("max", "np.max"):
                v = [x.max() for x in rows]
            elif f == "argmax":
                v = [int(np.argmax(x)) for x in rows]
            elif f in ("mean", "np.mean"):
                v = [float(np.mean(x.astype(np.float64))) for x in rows]
            elif f in ("any", "all"):
                v = [bool(getattr(x > 1, f)()) for x in rows]
            elif f == "col_sum":
                v = [np.sum(np.array([x[j] for x in rows if len(x) > j], dtype=dt)) for j in range(w)]
            elif f == "mean0":
                v = [float(np.sum(np.array([x[j] for x in rows if len(x) > j], dtype=np.float64)) / sum(1 for x in rows if len(x) > j)) for j in range(w)]
            elif f == "any0":
                v = [bool(any((x[j] != 0) if p.get("raw") else (x[j] > p.get("thr", 1)) for x in rows)) for j in range(w)]
            elif f == "col_counts":
                v = [sum(1 for x in rows if len(x) > j) for j in range(w)]
            elif f == "ravel":
                v = [y for x in rows for y in x.tolist()]
            elif f == "concat" and _mixed_concat(p):
                v = [x.tolist() for x in rows] + [(x * 1.5).tolist() for x in rows] + [x.tolist() for x in rows]
            elif f == "concat":
                v = [x.tolist() for x in rows] * 2
            elif f == "unary":
                v = [(-x).tolist() for x in rows]
            elif f == "scalar":
                uf = getattr(np, p["uf"])
                v = [(uf(x, p["c"]) if p["side"] == "right" else uf(p["c"], x)).tolist() for x in rows]
            elif f == "column":
                uf = getattr(np, p["uf"])
                v = [(uf(x, np.int64(c)) if p["side"] == "right" else uf(np.int64(c), x)).tolist() for x, c in zip(rows, p["col"])]
        return {"k": "val", "v": _nl(_norm(v))}
    except ragidx.Refused:
        return refuse()


LEAN_F = {"to_array", "row_int", "rows", "element", "col_int", "sum", "max", "any", "all", "col_sum", "col_counts", "ravel", "concat", "unary", "scalar", "column", "col_range", "argmax", "any0"}


def lean_request(p):
    f = p["f"]
    if f not in LEAN_F or p["dtype"] in ("float64", "float32", "uint8", "uint64", "int8") or p.get("vmap"):
        return None
    if f in ("scalar", "column") and p["uf"] != "subtract":
        return None
    if f == "concat" and _mixed_concat(p):
        return None          # (a float piece: implementation vs numpy only)
    if f == "col_int" and p["rsel"]["t"] != "all":
        return None
    if f in ("col_counts", "ravel", "concat", "max", "col_int", "col_range", "argmax") and p["cls"] != "ragged":
        return None
    inp = p["inp"]
    kind = inp["kind"]
    if p["cls"] == "ragged" and kind != "ragged":
        req = {"kind": "ragged", "rows": _dense(inp)}
    elif kind == "matrix":
        req = {"kind": "matrix", "rows": inp["rows"], "ncols": len(inp["rows"][0])}
    else:
        req = dict(inp)
    req.update(op="RL2.run", f=f)
    for k in ("i", "j", "sel", "c", "side", "col", "a", "b", "s", "rsel"):
        if k in p:
            req[k] = p[k]
    if f == "any0":
        if p["cls"] != "2d":
            return None
        req["f"] = "col_any"; req["thr"] = 0 if p.get("raw") else p.get("thr", 1)      # (cells are >= 0 here: non-zero = above 0)
        return req
    if f in ("any", "all"):
        # the implementation reduces (rl > 1); feed the model the thresholded data
        req["rows"] = [[1 if v > 1 else 0 for v in r] for r in _dense(inp)]
        req["kind"] = "matrix" if p["cls"] == "2d" else "ragged"
        if req["kind"] == "matrix":
            req["ncols"] = len(req["rows"][0])
    return req


def decode_lean(p, resp):
    f = p["f"]
    def conv(j):
        if isinstance(j, dict) and j.get("refuse"):
            return refuse()
        if f == "to_array":
            if isinstance(j["rows"], dict) or not j["lockstep"]:
                return refuse()
            return {"k": "val", "v": j["rows"]}
        if f in ("any", "all", "any0"):
            return {"k": "val", "v": [bool(x) for x in j]}
        return {"k": "val", "v": j}
    return conv(resp["L"]), conv(resp["S"])


def _close(a, b, tol=1e-9):
    if isinstance(a, list) and isinstance(b, list):
        return len(a) == len(b) and all(_close(x, y, tol) for x, y in zip(a, b))
    if isinstance(a, bool) or isinstance(b, bool):
        return bool(a) == bool(b)
    if isinstance(a, (int, float)) and isinstance(b, (int, float)):
        if a == b or (a != a and b != b):
            return True
        return abs(a - b) <= tol * max(abs(a), abs(b))
    return a == b


def same(a, b):
    if engine.is_refuse(a) or engine.is_refuse(b):
        return engine.is_refuse(a) and engine.is_refuse(b)
    return _close(a["v"], b["v"], 0.0)


def _close32(a, b):
    """float32 data: the library accumulates in float64 (relative error 1e-6), and numpy's float32 result may have overflowed to
    +-inf where the float64 accumulation is finite but beyond the float32 range"""
    if isinstance(a, list) and isinstance(b, list):
        return len(a) == len(b) and all(_close32(x, y) for x, y in zip(a, b))
    if isinstance(a, (int, float)) and isinstance(b, (int, float)):
        if isinstance(b, float) and b in (float("inf"), float("-inf")) and a == a and abs(a) > 3.4e38 and (a > 0) == (b > 0):
            return True
        return _close(a, b, 1e-6)
    return a == b


def matches_finding(f, p, impl, expect):
    if f["id"] == "F16a":
        if p["f"] not in ("sum", "mean", "np.sum", "np.mean", "col_sum", "mean0") or engine.is_refuse(impl):
            return False
        if p["dtype"] == "float64":
            return _close(impl["v"], expect["v"], 1e-12)
        return p["dtype"] == "float32" and _close32(impl["v"], expect["v"])
    if f["id"] == "F17d":
        # float column sums / column means: differences + one cumulative sum over all rows' boundaries
        if p["f"] not in ("col_sum", "mean0") or p["dtype"] not in ("float64", "float32") or engine.is_refuse(impl):
            return False
        dense = _vmapped(p, _dense(p["inp"]))
        tot = sum(abs(float(v)) for r in dense for v in r)
        eps = 2.0 ** -52 if p["dtype"] == "float64" else 2.0 ** -23
        iv, ev = impl["v"], expect["v"]
        if not (isinstance(iv, list) and isinstance(ev, list) and len(iv) == len(ev)):
            return False
        for x, y in zip(iv, ev):
            if not (isinstance(x, (int, float)) and isinstance(y, (int, float))):
                return False
            if x != x or y != y or abs(x) == float("inf") or abs(y) == float("inf"):
                continue          # overflowing partial sums: both sides are not finite somewhere
            if abs(x - y) > 16 * eps * tot:
                return False
        return True
    if f["id"] == "F17c":
        # column means of 64-bit integers whose exact column sum leaves the 64-bit range
        if p["f"] != "mean0" or p["dtype"] not in ("int64", "uint64") or p.get("vmap") != "big" or engine.is_refuse(impl):
            return False
        dense = _vmapped(p, _dense(p["inp"]))
        w = max(len(r) for r in dense)
        lo, hi = (-2 ** 63, 2 ** 63 - 1) if p["dtype"] == "int64" else (0, 2 ** 64 - 1)
        iv, ev = impl["v"], expect["v"]
        if not (isinstance(iv, list) and isinstance(ev, list) and len(iv) == len(ev) == w):
            return False
        for j in range(w):
            col = sum(r[j] for r in dense if len(r) > j)
            if lo <= col <= hi:
                if not _close(iv[j], ev[j], 1e-12):
                    return False
        return True
    return False
