"""C05 — row reductions equal numpy's per-row reductions, empty rows included."""
import random, warnings
import numpy as np
import engine, gens
from engine import canon, guarded, refuse

ID = "C05"
LEVEL = "proof"
LEVEL_TEXT = ("Lean 4 theorems for every ragged shape (empty rows first, last, consecutive, all rows empty, zero rows) and every segment "
              "reduction red with red [] = identity: the model of _reduce (ufunc.reduceat on row starts, trimming of trailing empty "
              "rows via searchsorted, padding, identity patch-up) returns red of every row; without an identity (max/min) it returns "
              "red of every NON-EMPTY row and one entry per row. argmax / argmin (column-broadcast comparison with the row extrema, "
              "np.nonzero, first hit per row via np.unique(return_index), scatter into zeros) return the FIRST position of the row's "
              "maximum / minimum for every non-empty row and 0 for an empty one (C05_first_position_of, C05_argmax, C05_argmin). "
              "numpy's reduce folds a row FROM THE IDENTITY e while reduceat folds a segment from its first cell: the repaired _reduce "
              "(segment folds, e for empty rows, then ufunc(e, result)) equals the left fold from e of every row for every ASSOCIATIVE "
              "op with op e e = e -- e need not be neutral, as for gcd, hypot, logaddexp (C05_reduce_from_identity; "
              "C05_F05h_reduceat_alone_differs is the counterexample without the last step). The numeric side (what numpy's reduce gives for a row of a given "
              "dtype, result dtypes, mean/axis=None/keepdims wrappers, argmax/argmin on float cells) is decided by the correspondence: the model "
              "returns the cells of each segment, numpy reduces them, compared with the implementation over shapes x reductions x dtypes.")
LEVEL_NOTE = ("Trusted: Lean kernel (+ standard axioms); hand model of _reduce (tied by correspondence); numpy reduceat on a non-empty "
              "segment is the sequential fold of its cells and reduce the fold from the identity (float add is summed pairwise by reduce, NOT bit-identical: "
              "known finding F05c, judged with a relative-error bound); wrappers (axis=None, keepdims, mean) are "
              "correspondence-only.")
TECHNIQUE = "Lean 4 proof of reduceat+patch-up model = map red rows; numpy-evaluated correspondence"
DESIGN_REF = "7"
LEAN_MODULES = ["NpsVerif.Props.C05", "NpsVerif.Props.C05B", "NpsVerif.Props.C05C"]
KERNELS = ()
RULE = ("cases = ragged shape (exhaustive <=4 rows x <=2 cells quick, <=4x3 thorough, + random with many empty rows) x reduction "
        "(sum prod any all max min mean argmax argmin; np.<ufunc>.reduce for add multiply logical_and/or/xor bitwise_and/or/xor "
        "maximum minimum; np.sum etc.) x axis (-1, 1, None) x keepdims x dtype; distinct = distinct (lengths, reduction, axis, "
        "keepdims, dtype); non-trivial = at least one non-empty row")
EXHAUSTIVE = {"quick": False, "thorough": False}
CORRESPONDENCE_ONLY = ["mean; argmax / argmin on float cells", "axis=None and keepdims wrappers", "result dtypes", "float rounding"]
ASSUMPTIONS = ["reduceat on a non-empty segment = reduce of that segment for int/bool dtypes and for maximum/minimum"]

METHODS = ["sum", "prod", "any", "all", "max", "min", "mean", "argmax", "argmin"]
UFUNCS = ["add", "multiply", "logical_and", "logical_or", "logical_xor", "bitwise_and", "bitwise_or", "bitwise_xor", "maximum", "minimum",
          "logaddexp", "logaddexp2", "hypot", "gcd"]      # the last four: an identity that is not 0 / 1 / True (-inf, -inf, 0.0, 0), float results for integer data
NPFUNCS = ["sum", "prod", "any", "all", "max", "min", "mean", "argmax", "argmin"]
NO_IDENTITY = {"max", "min", "maximum", "minimum", "argmax", "argmin", "mean"}
UF_OF = {"sum": "add", "prod": "multiply", "any": "logical_or", "all": "logical_and", "max": "maximum", "min": "minimum"}


def cases(rng, tier):
    out = []
    shapes = gens.shapes_exhaustive(4, 2) if tier == "quick" else gens.shapes_exhaustive(4, 3) + gens.shapes_exhaustive(5, 1)
    shapes = shapes + [gens.shape_random(rng, 14, 9) for _ in range(200 if tier == "quick" else 3000)]
    for lens in shapes:
        reps = 4 if tier == "quick" else 10
        for _ in range(reps):
            how = rng.choice(["method", "method", "ufunc", "npfunc"])
            name = rng.choice(METHODS if how == "method" else UFUNCS if how == "ufunc" else NPFUNCS)
            dt = rng.choice(gens.DTYPES)
            if name.startswith("bitwise") and np.dtype(dt).kind == "f":
                dt = "int16"
            if name == "gcd" and np.dtype(dt).kind not in "iu":
                dt = rng.choice(["int64", "int8", "uint16"])
            axis = rng.choice([-1, -1, 1, None]) if how != "ufunc" else rng.choice([-1, 1])
            if name in ("argmax", "argmin") and axis is None:
                axis = -1
            keep = rng.random() < 0.2 and axis is not None and how == "method"
            if name in NO_IDENTITY and not any(l > 0 for l in lens):
                continue      # max/min/mean/argmax/argmin speak about non-empty rows only; an array without any is not judged
            out.append({"lens": lens, "how": how, "name": name, "dtype": dt, "axis": axis, "keepdims": keep, "vseed": rng.randint(0, 999),
                        "vmode": rng.choice(["rare", "rare", "rare", "cancel", "cancel", "small", "small", "small", "small", "small"]),
                        "derived": rng.choice(gens.DERIVATIONS)})
    # reductions over the WHOLE array (no axis) of cells that all lie on one side of zero, with empty rows first / last / in between:
    # an empty row contributes nothing -- in particular no 0 -- to the maximum, the minimum, the product ...
    for _ in range(120 if tier == "quick" else 1500):
        body = [rng.randint(1, 4) for _ in range(rng.randint(1, 4))]
        lens = [0] * rng.randint(0, 2) + body + [0] * rng.randint(0, 2)
        if rng.random() < 0.4 and len(body) > 1:
            lens.insert(rng.randint(1, len(lens) - 1), 0)
        how = rng.choice(["method", "npfunc"])
        name = rng.choice(["max", "min", "max", "min", "sum", "prod", "all", "any"]) if how == "method" else rng.choice(["amax", "amin", "max", "min", "sum", "prod", "all", "any"] if "amax" in NPFUNCS else [n for n in NPFUNCS if n not in ("mean", "argmax", "argmin")])
        if name not in (METHODS if how == "method" else NPFUNCS):
            continue
        out.append({"lens": lens, "how": how, "name": name, "dtype": rng.choice(["int64", "float64", "int8", "int32", "float32", "uint8"]), "axis": None, "keepdims": False,
                    "vseed": rng.randint(0, 999), "vmode": rng.choice(["positive", "negative"]), "derived": None})
    return out


def key(p):
    return engine.stable_hash([p["lens"], p["how"], p["name"], p["dtype"], p["axis"], p["keepdims"], p.get("vmode"), p.get("derived")])


def nontrivial(p):
    return any(l > 0 for l in p["lens"])


def distribution(ps):
    d = gens.shape_stats([p["lens"] for p in ps])
    d["reductions"] = gens.hist(p["how"] + ":" + p["name"] for p in ps)
    d["axis"] = gens.hist(p["axis"] for p in ps)
    d["dtypes"] = gens.hist(p["dtype"] for p in ps)
    d["value_modes"] = gens.hist(p.get("vmode", "small") for p in ps)
    d["trailing_empty_after_interior_empty"] = sum(1 for p in ps if len(p["lens"]) >= 3 and p["lens"][-1] == 0 and any(l == 0 for l in p["lens"][:-1]) and any(l > 0 for l in p["lens"]))
    return d


def _vals(p):
    vm = p.get("vmode", "small")
    if vm in ("positive", "negative"):
        # cells all on one side of zero (so that the extremum of the cells lies on the far side of any 0 an empty row contributes)
        v = gens.cell_values(p["dtype"], sum(p["lens"]), random.Random(p["vseed"]), mode="small")
        dt = v.dtype
        if dt.kind == "b":
            return np.ones(len(v), dtype=dt)
        with np.errstate(all="ignore"):
            mag = (np.abs(v.astype(np.float64)) % 50 + 1).astype(dt)
        return mag if (vm == "positive" or dt.kind == "u") else (-mag).astype(dt)
    return gens.cell_values(p["dtype"], sum(p["lens"]), random.Random(p["vseed"]), mode=vm)


def _masked(values, lens, need_nonempty):
    """per-row list; entries of empty rows are None when the reduction is unspecified there"""
    out = []
    for v, l in zip(values, lens):
        out.append(None if (need_nonempty and l == 0) else engine._scalar(v))
    return out


def run_impl(p):
    from npstructures import RaggedArray
    def f():
        vals = _vals(p)
        base = vals.copy()
        ra = gens.derive_ra(RaggedArray(base, list(p["lens"])), p.get("derived"))
        name, how, axis = p["name"], p["how"], p["axis"]
        def call():
            if how == "method":
                kw = {"axis": axis} if axis is not None else {}
                if p["keepdims"]:
                    kw["keepdims"] = True
                return getattr(ra, name)(**kw)
            if how == "ufunc":
                return getattr(np, name).reduce(ra, axis=axis)
            if axis is not None and p["vseed"] % 3 == 0:
                return getattr(np, name)(ra, axis)        # the axis given positionally
            return getattr(np, name)(ra, axis=axis) if axis is not None else getattr(np, name)(ra)
        with np.errstate(all="ignore"), warnings.catch_warnings():
            warnings.simplefilter("ignore")
            res = call()
        if axis is None:
            return {"k": "obs", "scalar": canon(res if not isinstance(res, (bool, int, float)) else np.asarray(res)[()])}
        arr = np.asarray(res)
        # the same reduction again on the same object after a write that does not go through __setitem__ (fill / the flat view / the
        # numpy array the RaggedArray was built on): anything remembered from the first call must not survive
        again = None
        unchanged = bool(np.array_equal(ra.ravel().view(np.uint8), vals.view(np.uint8)))
        if p["vseed"] % 2 == 0:
            one = np.ones(1, dtype=vals.dtype)[0]
            how_w = p["vseed"] % 3
            if how_w == 0:
                ra.fill(one)
            elif how_w == 1 and ra.size:
                ra.ravel()[-1] = one
            elif ra.size and p.get("derived"):
                ra.ravel()[0] = one          # (a derived array has a buffer of its own)
            elif ra.size:
                base[0] = one
            with np.errstate(all="ignore"), warnings.catch_warnings():
                warnings.simplefilter("ignore")
                again = np.asarray(call())
        shape_ok = arr.shape == ((len(p["lens"]), 1) if p["keepdims"] else (len(p["lens"]),))
        flat = arr.reshape(-1)
        need = name in NO_IDENTITY
        o = {"k": "obs", "values": {"k": "list", "v": _masked(list(flat), p["lens"], need)} if shape_ok else canon(arr),
             "dtype": canon(str(arr.dtype)) if any(l > 0 for l in p["lens"]) else canon("n/a"),
             "unchanged": canon(unchanged)}
        if again is not None:
            o["after_write"] = {"k": "list", "v": _masked(list(again.reshape(-1)), p["lens"], need)} if again.shape == arr.shape else canon(again)
        return o
    return guarded(f)


def _row_reduce(name, row, dt):
    r = np.array(row, dtype=dt)
    with np.errstate(all="ignore"), warnings.catch_warnings():
        warnings.simplefilter("ignore")
        if name in UFUNCS:
            return getattr(np, name).reduce(r)
        if name in UF_OF:
            return getattr(np, UF_OF[name]).reduce(r)
        if name == "mean":
            return np.mean(r) if len(r) else np.float64("nan")
        if name == "argmax":
            return np.argmax(r)
        if name == "argmin":
            return np.argmin(r)
    raise ValueError(name)


def _expect_from_rows(p, rows):
    name, axis = p["name"], p["axis"]
    dt = np.dtype(p["dtype"])
    need = name in NO_IDENTITY
    if axis is None:
        flat = np.array([x for r in rows for x in r], dtype=dt)
        with np.errstate(all="ignore"), warnings.catch_warnings():
            warnings.simplefilter("ignore")
            try:
                fn = name if name not in UFUNCS else None
                v = getattr(np, name)(flat)
            except Exception:
                return refuse()
        return {"k": "obs", "scalar": canon(np.asarray(v)[()])}
    vals, dts = [], None
    for r in rows:
        if len(r) == 0 and need:
            vals.append(0)
            continue
        v = _row_reduce(name, r, dt)
        vals.append(v)
        dts = np.asarray(v).dtype
    if dts is None:
        dts = np.asarray(_row_reduce(name, [], dt)).dtype if not need else np.dtype("float64")
    return {"k": "obs", "values": {"k": "list", "v": _masked(vals, [len(r) for r in rows], need)},
            "dtype": canon(str(dts)) if any(l > 0 for l in p["lens"]) else canon("n/a"), "unchanged": canon(True)}


def oracle(p):
    vals = _vals(p)
    rows, k = [], 0
    for l in p["lens"]:
        rows.append(list(vals[k:k + l])); k += l
    o = _expect_from_rows(p, rows)
    if p["axis"] is not None and p["vseed"] % 2 == 0 and isinstance(o, dict) and "values" in o:
        v2 = vals.copy()
        one = np.ones(1, dtype=vals.dtype)[0]
        how_w = p["vseed"] % 3
        if how_w == 0:
            v2[...] = one
        elif how_w == 1 and v2.size:
            v2[-1] = one
        elif v2.size:
            v2[0] = one
        rows2, k = [], 0
        for l in p["lens"]:
            rows2.append(list(v2[k:k + l])); k += l
        o["after_write"] = _expect_from_rows(p, rows2)["values"]
    return o


def _int_rows(p):
    vals = _vals(p)
    rows, k = [], 0
    for l in p["lens"]:
        rows.append([int(v) for v in vals[k:k + l]]); k += l
    return rows


def lean_request(p):
    if p["name"] in ("argmax", "argmin") and p["axis"] is not None and np.dtype(p["dtype"]).kind in "iu":
        # integer cells go to the model as they are: argmax / argmin compare values
        return {"op": "C05.argred", "rows": _int_rows(p), "min": p["name"] == "argmin"}
    if p["axis"] is None or p["name"] in ("mean", "argmax", "argmin"):
        return None
    return {"op": "C05.reduce", "rows": gens.rows_of_ids(p["lens"]), "identity": p["name"] not in NO_IDENTITY}


def decode_lean(p, resp):
    vals = _vals(p)
    if p["name"] in ("argmax", "argmin"):
        def cv(j):
            if isinstance(j, dict) and j.get("refuse"):
                return refuse()
            return {"k": "obs", "values": {"k": "list", "v": _masked([np.int64(x) for x in j], p["lens"], True)}}
        return cv(resp["L"]), cv(resp["S"])
    def conv(j, is_model):
        if isinstance(j, dict) and j.get("refuse"):
            return refuse()
        rows = [[vals[i] for i in r] for r in j]
        if is_model and p["name"] in NO_IDENTITY:
            # without an identity the model's entries for empty rows are whatever reduceat produced: unspecified
            rows = [r if l > 0 else [] for r, l in zip(rows, p["lens"])]
        return _expect_from_rows(p, rows)
    return conv(resp["L"], True), conv(resp["S"], False)


def _num(v):
    if isinstance(v, str):
        return float("nan") if v == "nan" else float.fromhex(v)
    return v


def _close_lists(a, b, tol):
    if len(a) != len(b):
        return False
    for x, y in zip(a, b):
        if x is None or y is None:
            if x is not y:
                return False
            continue
        fx, fy = float(_num(x)), float(_num(y))
        if fx != fx and fy != fy:
            continue
        if fx == fy:
            continue
        if not abs(fx - fy) <= tol * max(abs(fx), abs(fy)):
            return False
    return True


def same(a, b):
    if isinstance(a, dict) and isinstance(b, dict) and a.get("k") == "obs" and b.get("k") == "obs":
        ks = (set(a) & set(b)) - {"k"}
        def one(k):
            if k == "scalar":      # axis=None returns a Python scalar (.item()): value equality only
                x, y = a[k], b[k]
                if engine.is_refuse(x) or engine.is_refuse(y):
                    return engine.is_refuse(x) and engine.is_refuse(y)
                fx, fy = _num(x["v"]), _num(y["v"])
                return fx == fy or (fx != fx and fy != fy)
            return engine.same(a[k], b[k])
        return bool(ks) and all(one(k) for k in ks)
    return engine.same(a, b)


def _sum_bounds(p):
    """per row: the classical bound on the difference of two floating-point summation orders, 2 n eps sum|x| (None = the row
    holds a non-finite cell or overflows: any pair of non-finite results is the same finding)"""
    vals = _vals(p).astype(np.float64)
    eps = 2.0 ** -23 if p["dtype"] == "float32" else 2.0 ** -52
    out, k = [], 0
    for l in p["lens"]:
        r = vals[k:k + l]; k += l
        if l == 0:
            out.append(0.0); continue
        s = float(np.sum(np.abs(r)))
        if not np.all(np.isfinite(r)) or not np.isfinite(s) or (p["dtype"] == "float32" and s > 3.0e38):
            out.append(None); continue
        b = 2.0 * l * eps * s
        out.append(b / l if p["name"] == "mean" else b)
    return out


def _within(a, b, bounds):
    if len(a) != len(b) or len(a) != len(bounds):
        return False
    for x, y, bd in zip(a, b, bounds):
        if x is None or y is None:
            if x is not y:
                return False
            continue
        fx, fy = float(_num(x)), float(_num(y))
        if fx == fy or (fx != fx and fy != fy):
            continue
        if bd is None:
            if np.isfinite(fx) and np.isfinite(fy):
                return False
            continue
        if not abs(fx - fy) <= bd + 1e-300:
            return False
    return True


def matches_finding(f, p, impl, expect):
    if f["id"] == "F05c":
        # float sums; and the mean of an integer / bool array, which both sides compute by a float64 summation
        if p["name"] not in ("sum", "add", "mean") or (np.dtype(p["dtype"]).kind != "f" and p["name"] != "mean"):
            return False
        try:
            if "values" in impl and "values" in expect:
                return engine.same(impl.get("dtype"), expect.get("dtype")) and _within(impl["values"]["v"], expect["values"]["v"], _sum_bounds(p))
            if "scalar" in impl and "scalar" in expect:
                bs = _sum_bounds(p)
                tot = None if any(b is None for b in bs) else sum(bs) * max(1, len(bs))
                return _within([impl["scalar"]["v"]], [expect["scalar"]["v"]], [tot])
        except Exception:
            return False
    return False
