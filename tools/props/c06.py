"""C06 — a derived array behaves exactly like a freshly built equal array."""
import random
import numpy as np
import engine, gens, ragidx, proggen
from engine import canon, guarded, refuse

ID = "C06"
LEVEL = "proof"
LEVEL_TEXT = ("Lean 4 theorem C06_program: for EVERY straight-line program over {construct, select (any row/column selection of any "
              "earlier array, to any depth), whole-array alias a[...], ufunc with scalar / array, concatenate, sort, cumsum, diff, unique, "
              "assign (any index, any value kind), poke (a write through the flat view or through the numpy array the array was "
              "constructed over), read, read through an index, row sums} and every input, the observation trace of "
              "the heap model (flat buffers + shapes, selections materialised into their own buffer, aliases sharing a buffer, "
              "assignment writing the shared buffer) equals the trace under the reference semantics in which every variable simply "
              "denotes a cell holding a plain list of rows (aliases share the cell): so a derived array is indistinguishable from a "
              "freshly built one, and assigning into it never alters its source. Proved by a simulation relation with one lemma per "
              "statement form on top of the theorems of C02/C03/C04/C07/C08. Tied to the code by correspondence on random well-typed "
              "programs run on real objects, on the compiled model and on a CPython reference interpreter.")
LEVEL_NOTE = ("Trusted: Lean kernel (+ standard axioms), kernel translator, N layer; the heap model's allocation discipline (which "
              "operations share a buffer) is hand-modelled and tied by correspondence -- a re-introduced lazy view shows up as a trace "
              "difference after a write to the source. where is exercised under C07/C08 only; float data enters through one probe: at every read the array and a freshly built "
              "equal one must answer a ufunc with a float column vector (inf, mixed magnitudes) alike (implementation against itself).")
TECHNIQUE = "Lean 4 simulation proof (induction over the program) heap model vs store of rows; program-level correspondence"
DESIGN_REF = "7"
LEAN_MODULES = ["NpsVerif.Props.C06"]
KERNELS = ("view2_ends", "calc_lengths", "pos_col_slice", "col_slice_slice", "col_slice_int")
RULE = ("cases = random well-typed straight-line programs: 1-2 input arrays (shapes with empty rows) + 1..10 statements from the "
        "15-statement alphabet, selections of selections to any depth, then a final read of every array; a quarter are derivation "
        "chains (arrays derived from derived arrays, then writes into intermediate ones, no reads in between); input arrays are "
        "constructed over contiguous / strided / reversed / column views of numpy arrays; run with two index-object variants; distinct = distinct programs; non-trivial = >= 1 selection or alias followed by an assignment or read")
EXHAUSTIVE = {"quick": False, "thorough": False}
CORRESPONDENCE_ONLY = ["np.where inside programs", "non-integer dtypes"]
ASSUMPTIONS = []


def cases(rng, tier):
    out = []
    for i in range(2500 if tier == "quick" else 40000):
        prog = (proggen.gen_resample_program(rng) if i % 10 == 9 else proggen.gen_empty_selection_program(rng) if i % 10 == 4 else proggen.gen_mixed_concat_program(rng) if i % 20 == 7 else
                proggen.gen_program(rng, rng.randint(1, 10), chain=(i % 4 == 3)))
        out.append({"prog": prog, "variant": rng.randint(0, 29)})
    return out


def key(p):
    return engine.stable_hash(p["prog"])


def nontrivial(p):
    kinds = [s["s"] for s in p["prog"]]
    return ("select" in kinds or "alias" in kinds) and len(kinds) >= 4


def distribution(ps):
    return {"statements": gens.hist(s["s"] for p in ps for s in p["prog"]),
            "program_length": gens.hist(min(len(p["prog"]), 16) for p in ps),
            "selection_depth>=2": sum(1 for p in ps if _depth(p["prog"]) >= 2),
            "assign_after_select_on_source": sum(1 for p in ps if _write_after_select(p["prog"]))}


def _depth(prog):
    d, created = {}, 0
    best = 0
    for s in prog:
        if s["s"] in ("new", "select", "alias", "add_scalar", "add_arrays", "concat", "concat1", "astype", "sort", "cumsum", "diff", "unique"):
            d[created] = (d.get(s.get("x"), 0) + 1) if s["s"] == "select" else 0
            best = max(best, d[created]); created += 1
    return best


def _write_after_select(prog):
    selected_from = set()
    for s in prog:
        if s["s"] == "select":
            selected_from.add(s["x"])
        if s["s"] == "assign" and s["x"] in selected_from:
            return True
    return False


def run_impl(p):
    return guarded(lambda: {"k": "trace", "v": proggen.run_real(p["prog"], None, p.get("variant", 0))})


def oracle(p):
    return {"k": "trace", "v": proggen.run_ref(p["prog"])}


def lean_prog(prog):
    """`np.concatenate([x])` (one operand) is, in the model, concatRows [x] = a fresh array with x's rows: it is sent
    to the Lean machines as the observationally identical selection of all rows `x[:]`"""
    out = []
    for st in prog:
        if st["s"] in ("read_meta", "read_col"):     # len / size / lengths / a column are functions of the rows: the model is asked for the rows
            out.append({"s": "read", "x": st["x"]})
        elif st["s"] == "fill":           # x.fill(v) = x[...] = v
            out.append({"s": "assign", "x": st["x"], "idx": {"r": {"t": "all"}, "c": None}, "val": {"t": "scalar", "v": st["v"]}})
        elif st["s"] == "new":
            out.append({k: v for k, v in st.items() if k != "dt"})      # (the model's cells are integers whatever the element type)
        elif st["s"] in ("concat1", "astype"):
            out.append({"s": "select", "x": st["x"], "idx": {"r": {"t": "slice", "a": None, "b": None, "k": None}, "c": None}})
        else:
            out.append(st)
    return out


def lean_request(p):
    return {"op": "Heap.run", "prog": lean_prog(p["prog"])}


def _conv_obs(st, j):
    s = st["s"]
    if isinstance(j, dict) and j.get("refuse"):
        return "refuse"
    if s == "read_idx":
        return [j["t"], j["v"]]
    if s == "read_meta" and isinstance(j, list):
        return [len(j), sum(len(r) for r in j), [len(r) for r in j]]
    if s == "read_col" and isinstance(j, list):
        return [r[st["j"]] for r in j if len(r) > st["j"]]
    return j


def decode_lean(p, resp):
    def conv(tr):
        return {"k": "trace", "v": [_conv_obs(st, j) for st, j in zip(p["prog"], tr)]}
    return conv(resp["L"]), conv(resp["S"])


def same(a, b):
    if engine.is_refuse(a) or engine.is_refuse(b):
        return engine.is_refuse(a) and engine.is_refuse(b)
    va, vb = a["v"], b["v"]
    return len(va) == len(vb) and all(x is None or y is None or x == y for x, y in zip(va, vb))


def matches_finding(f, p, impl, expect):
    return False
