"""Case provider for C19 (not a property of its own): the column-slice arithmetic of a ragged VIEW executed on bare shape arrays
(starts, lengths) of the configured index dtype -- no data buffer, so rows of up to 2**31 - 1 cells cost nothing.  The same case
runs under int64 (in process) and int32 (c19_worker), through the generated wrapping-32-bit kernels `Gen.CurW` (L) and the
committed reference kernels `Gen.Ref` over unbounded integers (S) in the Lean driver, and through CPython's own slice arithmetic (oracle).

Domain = the domain of the theorems `C19_col_slice_w32` / `C19_col_slice_int_w32`: rows inside a buffer of at most 2**31 - 1
cells, slice fields within the clip of `IndexableArray._bounded_slice` (+-(2**31 - 1) // 2), any Python integer as a column."""
import numpy as np
import engine
from engine import refuse, guarded

M31 = 2 ** 31 - 1
B30 = M31 // 2
LENS = [0, 1, 2, 3, 5, 17, 46341, 2 ** 20 + 1, B30 - 1, B30, B30 + 1, B30 + 6, 2 ** 30 + 2 ** 29, M31 - 11, M31 - 1, M31]
FIELDS = [None, 0, 1, -1, 2, -2, 5, -5, 46341, -46341, 2 ** 20, -(2 ** 20), B30 - 6, B30 - 1, B30, -(B30 - 1), -B30]
STEPS = [None, 1, 2, 3, 7, 46341, B30 - 6, B30 - 1, B30, -1, -2, -3, -46341, -(B30 - 1), -B30]


def cases(rng, tier):
    out = []
    for _ in range(1200 if tier == "quick" else 20000):
        rows = []
        for _ in range(rng.randint(1, 4)):
            ln = rng.choice(LENS) if rng.random() < 0.7 else rng.randint(0, 40)
            s0 = rng.choice([0, 0, 1, 11, M31 - ln, (M31 - ln) // 2])
            s0 = max(0, min(s0, M31 - ln))
            rows.append([s0, ln])
        if rng.random() < 0.8:
            f = lambda: rng.choice(FIELDS) if rng.random() < 0.8 else rng.randint(-B30, B30)
            k = rng.choice(STEPS) if rng.random() < 0.85 else rng.choice([-1, 1]) * rng.randint(1, B30)
            out.append({"rows": rows, "sl": [f(), f(), k]})
        else:
            ln = rng.choice(rows)[1]
            i = rng.choice([0, 1, -1, ln - 1, -ln, ln, -ln - 1, B30, -B30, M31, -M31 - 1, 2 ** 32, -(2 ** 32), 2 ** 32 + 1, rng.randint(-50, 50)])
            out.append({"rows": rows, "idx": i})
    return out


def run_impl(p):
    from npstructures.raggedshape import RaggedView2, ViewBase
    dt = ViewBase._dtype
    starts = np.array([r[0] for r in p["rows"]], dtype=dt)
    lens = np.array([r[1] for r in p["rows"]], dtype=dt)
    before = (starts.copy(), lens.copy())

    def f():
        v = RaggedView2(starts, lens, 1)
        r = v.col_slice(slice(*p["sl"])) if "sl" in p else v.col_slice(p["idx"])
        got = [[int(s), int(n)] + ([int(r.col_step)] if "sl" in p else []) for s, n in zip(r.starts, r.lengths)]
        if not (np.array_equal(starts, before[0]) and np.array_equal(lens, before[1])):
            return {"k": "operand-modified", "got": got}
        return got
    return guarded(f)


def oracle(p):
    """CPython's slice arithmetic; the start of an empty row is unspecified (None = wildcard)"""
    out = []
    if "sl" in p:
        a, b, k = p["sl"]
        if k == 0:
            return refuse()
        for s0, ln in p["rows"]:
            r = range(*slice(a, b, k).indices(ln))
            out.append([s0 + r.start if len(r) else None, len(r), 1 if k is None else k])
        return out
    i = p["idx"]
    if any(i >= ln or i < -ln for _, ln in p["rows"]):
        return refuse()
    return [[s0 + (i % ln), 1] for s0, ln in p["rows"]]


def _plain(x):
    if isinstance(x, dict) and x.get("k") in ("list", "tuple"):
        return [_plain(v) for v in x["v"]]
    if isinstance(x, dict) and x.get("k") == "py":
        return x["v"]
    if isinstance(x, list):
        return [_plain(v) for v in x]
    return x


def same(x, y):
    x, y = _plain(x), _plain(y)
    if engine.is_refuse(x) or engine.is_refuse(y):
        return engine.is_refuse(x) and engine.is_refuse(y)
    if not (isinstance(x, list) and isinstance(y, list) and len(x) == len(y)):
        return False
    for a, b in zip(x, y):
        if len(a) != len(b) or a[1:] != b[1:]:
            return False
        if a[1] != 0 and a[0] is not None and b[0] is not None and a[0] != b[0]:
            return False
    return True


def lean_request(p):
    if "sl" in p:
        return {"op": "K.view", "rows": p["rows"], "a": p["sl"][0], "b": p["sl"][1], "k": p["sl"][2], "idx": None}
    return {"op": "K.view", "rows": p["rows"], "idx": p["idx"]}


def decode_lean(p, resp):
    def cut(v):
        if isinstance(v, dict):
            return refuse()
        return [r[:2] for r in v] if "idx" in p else v
    return cut(resp["L"]), cut(resp["S"])


def nontrivial(p):
    return any(ln > 0 for _, ln in p["rows"])
