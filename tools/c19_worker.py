#!/venv/bin/python
"""Runs the implementation side of C01..C09 cases under ViewBase.set_dtype(np.int32) in its own
interpreter (the switch is process-global).  usage: c19_worker.py <cases.json> <out.json>"""
import sys, os, json, importlib
sys.dont_write_bytecode = True
HERE = os.path.dirname(os.path.abspath(__file__))
sys.path.insert(0, HERE)
import engine  # noqa (puts /repo on sys.path)
import numpy as np
from npstructures.raggedshape import ViewBase


def warm_up():
    """the property is about SWITCHING the width: the library is first used under the other configuration (construction, row and
    column selection incl. bounds beyond 2**31, assignment, ufuncs, reductions), then switched -- anything computed once and
    remembered for the first configuration would show"""
    from npstructures import RaggedArray
    ra = RaggedArray([[1, 2, 3], [], [4, 5]])
    for idx in (slice(1, None), [0, 2], (slice(None), slice(1, 2 ** 40)), (slice(None), slice(None, None, -1)), (0, 1),
                (slice(None), slice(2 ** 31, None, -(2 ** 33)))):
        try:
            ra[idx]
        except Exception:
            pass
    # (a warm-up that fails is not the harness's business: the cases below will show the defect)
    steps = [lambda: ra.__setitem__((0, 0), 7)]
    # conversions of matrices of every small shape (anything remembered per shape for the first configuration would show later)
    for r in range(0, 6):
        for c in range(0, 6):
            def conv(r=r, c=c):
                m = RaggedArray.from_numpy_array(np.arange(r * c).reshape(r, c))
                if r:
                    m[r - 1]; m[::-1]; m.to_numpy_array()
            steps.append(conv)
    steps += [lambda: (ra + 1).sum(axis=-1), lambda: ra.sum(axis=0), lambda: np.cumsum(ra, axis=-1), lambda: ra.sort(axis=-1),
              lambda: np.concatenate([ra, ra]), lambda: ra.nonzero()]
    for st in steps:
        try:
            st()
        except Exception:
            pass


def main():
    warm_up()                       # under the default 64-bit indices
    ViewBase.set_dtype(np.int32)
    cases = json.load(open(sys.argv[1]))
    mods = {}
    out = []
    for c in cases:
        m = mods.get(c["prop"])
        if m is None:
            m = mods[c["prop"]] = importlib.import_module("props." + c["prop"].lower())
            if hasattr(m, "setup"):
                m.setup()
        out.append(m.run_impl(c["case"]))
    # (if set_dtype had no effect, both configurations are the same one and the property holds trivially: not an error here)
    json.dump(out, open(sys.argv[2], "w"))


if __name__ == "__main__":
    main()
