#!/venv/bin/python
"""Runs the implementation side of C01..C09 cases under ViewBase.set_dtype(np.int32) in its own
interpreter (the switch is process-global).  usage: c19_worker.py <cases.json> <out.json>"""
import sys, os, json, importlib
sys.dont_write_bytecode = True
HERE = os.path.dirname(os.path.abspath(__file__))
sys.path.insert(0, HERE)
import engine  # noqa (puts /repo on sys.path)
import numpy as np
from npstructures.raggedshape import ViewBase


def main():
    ViewBase.set_dtype(np.int32)
    cases = json.load(open(sys.argv[1]))
    mods = {}
    out = []
    for c in cases:
        m = mods.get(c["prop"])
        if m is None:
            m = mods[c["prop"]] = importlib.import_module("props." + c["prop"].lower())
            if hasattr(m, "setup"):
                m.setup()
        out.append(m.run_impl(c["case"]))
    assert ViewBase._dtype == np.int32
    json.dump(out, open(sys.argv[2], "w"))


if __name__ == "__main__":
    main()
