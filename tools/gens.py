"""Shared case generators: ragged shapes, dtypes, cell values, slices.  All randomness comes from the
`random.Random` handed in (seeded from VERIF_SEED), so every case replays exactly."""
import itertools, math
import numpy as np

DTYPES = ["bool", "int8", "int16", "int32", "int64", "uint8", "uint16", "uint32", "uint64", "float32", "float64"]
INT_DTYPES = ["int8", "int16", "int32", "int64", "uint8", "uint16", "uint32", "uint64"]


def shapes_exhaustive(max_rows, max_len):
    """all row-length vectors with <= max_rows rows of length <= max_len (incl. zero rows)."""
    out = []
    for n in range(max_rows + 1):
        out.extend(list(t) for t in itertools.product(range(max_len + 1), repeat=n))
    return out


def shape_random(rng, max_rows=12, max_len=8):
    n = rng.choice([0, 1, 2, 3, 5, 8, max_rows]) if rng.random() < 0.5 else rng.randint(0, max_rows)
    p_empty = rng.choice([0.0, 0.3, 0.7, 1.0])
    return [0 if rng.random() < p_empty else rng.randint(1, max_len) for _ in range(n)]


def rows_of_ids(lens):
    """rows whose cells are the distinct ids 0..size-1 (so a foreign cell can never be mistaken)."""
    rows, k = [], 0
    for l in lens:
        rows.append(list(range(k, k + l)))
        k += l
    return rows


_SPECIAL = {
    "float32": [0.0, -0.0, float("nan"), float("inf"), float("-inf"), 1.5, -2.25, 1e-40, 3.4e38, 1.0, 2.0, 0.1],
    "float64": [0.0, -0.0, float("nan"), float("inf"), float("-inf"), 1.5, -2.25, 5e-324, 1.7e308, 1.0, 2.0, 0.1],
}


def cell_values(dtype, n, rng, mode="distinct"):
    """n values of `dtype`.  mode 'distinct': pairwise distinct where the dtype allows (bool cannot),
    mixing extremes and ordinary values; 'small': small non-negative values (safe for arithmetic)."""
    dt = np.dtype(dtype)
    if dt.kind == "b":
        return np.array([bool(rng.getrandbits(1)) for _ in range(n)], dtype=dt)
    if mode == "rare":
        # rare values WITH repeats: NaN / infinities / signed zeros / magnitudes that do not add up exactly; dtype extremes and
        # values whose sums leave the 64-bit range
        if dt.kind == "f":
            pool = [float("nan"), float("inf"), float("-inf"), -0.0, 0.0, 1.0, 2.5, 1e16, -1e16, 1e-3, 0.7]
            return np.array([rng.choice(pool) for _ in range(n)], dtype=dt)
        info = np.iinfo(dt)
        pool = [info.min, info.max, info.max // 2 + 1, 0, 1, 2, 3] + ([-1] if dt.kind == "i" else [])
        return np.array([rng.choice(pool) for _ in range(n)], dtype=dt)
    if mode == "zeros":
        # zeros of both signs (equal values, different bit patterns) for floats; zeros and ones for the other dtypes
        if dt.kind == "f":
            return np.array([rng.choice([0.0, -0.0]) for _ in range(n)], dtype=dt)
        return np.array([rng.choice([0, 1]) for _ in range(n)], dtype=dt)
    if mode == "cancel":
        # values that cancel: x next to -x (signed / float), or wrap to zero together (unsigned: 1 and max); sums and products of
        # a row are 0 although the row holds non-zero cells
        if dt.kind == "f":
            pool = [1.0, -1.0, 2.5, -2.5, 0.0]
        elif dt.kind == "i":
            pool = [1, -1, 2, -2, 0]
        else:
            pool = [1, int(np.iinfo(dt).max), 0, 2, int(np.iinfo(dt).max) - 1]
        out = []
        while len(out) < n:
            x = rng.choice(pool)
            out.append(x)
            if rng.random() < 0.6 and len(out) < n:
                out.append((-x if dt.kind != "u" else (int(np.iinfo(dt).max) + 1 - x) % (int(np.iinfo(dt).max) + 1)))
        return np.array(out[:n], dtype=dt)
    if mode == "small":
        hi = 5
        if dt.kind == "f":
            return np.array([rng.choice([0.1, 0.7, 2.5, 1.0, 3.3, 0.0]) for _ in range(n)], dtype=dt)
        return np.array([rng.randint(0, hi) for _ in range(n)], dtype=dt)
    if dt.kind in "iu":
        info = np.iinfo(dt)
        pool = [info.min, info.max, 0, 1, info.max - 1, info.min + 1]
        if dt.kind == "i":
            pool += [-1, -2]
        vals, seen = [], set()
        for v in pool:
            if v not in seen and info.min <= v <= info.max:
                seen.add(v); vals.append(v)
        rng.shuffle(vals)
        k = 2
        while len(vals) < n:
            v = k if dt.kind == "u" or k % 2 == 0 else -k
            v = max(info.min, min(info.max, v))
            if v not in seen:
                seen.add(v); vals.append(v)
            k += 1
            if k > 10 * n + 300:
                vals.append(rng.randint(info.min, info.max))
        return np.array(vals[:n], dtype=dt)
    # floats: specials first (NaN is not equal to itself; comparison is by bit pattern/hex)
    sp = list(_SPECIAL[dt.name])
    rng.shuffle(sp)
    vals = sp[:n]
    k = 3.0
    while len(vals) < n:
        vals.append(k if len(vals) % 2 == 0 else -k)
        k += 1.25
    return np.array(vals, dtype=dt)


def pick_dtypes(rng, tier, k=3):
    if tier == "thorough":
        return list(DTYPES)
    base = ["int64"]
    rest = [d for d in DTYPES if d != "int64"]
    rng.shuffle(rest)
    return base + rest[: k - 1]


def slice_bounds(n, extra=2):
    return [None] + list(range(-(n + extra), n + extra + 1))


def all_slices(n, steps=(None, 1, 2, 3, -1, -2, -3), extra=2):
    b = slice_bounds(n, extra)
    return [(a, c, s) for a in b for c in b for s in steps]


def slice_random(rng, n, big=False):
    def bound():
        r = rng.random()
        if r < 0.2:
            return None
        if r < 0.3 and big:
            return rng.choice([-1, 1]) * rng.randint(n + 1, n + 50)
        return rng.randint(-(n + 2), n + 2)
    step = rng.choice([None, 1, 1, 2, 3, -1, -1, -2, -3, n + 1, -(n + 1)])
    if step == 0:
        step = 1
    return (bound(), bound(), step)


def hist(values):
    h = {}
    for v in values:
        h[str(v)] = h.get(str(v), 0) + 1
    return dict(sorted(h.items(), key=lambda kv: kv[0]))


def shape_stats(shapes):
    """distribution summary of a list of row-length vectors for the evidence file"""
    n = len(shapes)
    if not n:
        return {}
    def frac(pred):
        return round(sum(1 for s in shapes if pred(s)) / n, 3)
    return {
        "n_shapes": n,
        "n_rows_hist": hist(min(len(s), 10) for s in shapes),
        "zero_rows": frac(lambda s: len(s) == 0),
        "has_empty_row": frac(lambda s: any(l == 0 for l in s)),
        "empty_first": frac(lambda s: len(s) > 0 and s[0] == 0),
        "empty_last": frac(lambda s: len(s) > 0 and s[-1] == 0),
        "empty_middle": frac(lambda s: any(l == 0 for l in s[1:-1])),
        "consecutive_empty": frac(lambda s: any(a == 0 and b == 0 for a, b in zip(s, s[1:]))),
        "all_empty": frac(lambda s: len(s) > 0 and all(l == 0 for l in s)),
        "max_len_hist": hist(max(s) if s else 0 for s in shapes),
    }


# --- argument forms: an integer argument is legal as a Python int and as a numpy integer scalar of any width that holds it ---
INT_FORMS = [None, None, "int64", "intp", "int32", "uint8", "int8", "uint64"]


def int_form(i, form):
    """the integer i in the given form (None = Python int); a form that cannot hold i falls back to int64"""
    if form is None or isinstance(i, bool) or not isinstance(i, int):
        return i
    dt = np.dtype(form)
    info = np.iinfo(dt)
    if not (info.min <= i <= info.max):
        dt = np.dtype("int64")
        if not (np.iinfo(dt).min <= i <= np.iinfo(dt).max):
            return i
    return dt.type(i)


DERIVATIONS = [None, None, "select", "ufunc", "astype", "rev2", "mask_all", "list_all", "concat0", "reduced"]


def derive_ra(ra, how):
    """a value-preserving derivation of a ragged array: the result holds the same rows, but its shape object / buffer were built by
    the library (a derived array must behave like a freshly built one)"""
    import numpy as np
    if how is None:
        return ra
    if how == "select":
        return ra[:]
    if how == "ufunc":
        return np.maximum(ra, ra) if ra.dtype != np.bool_ else np.logical_or(ra, ra)
    if how == "astype":
        return ra.astype(ra.dtype)
    if how == "rev2":
        return ra[::-1][::-1]
    if how == "mask_all":
        return ra[np.ones(len(ra), dtype=bool)]
    if how == "list_all":
        return ra[list(range(len(ra)))] if len(ra) else ra
    if how == "concat0":
        return np.concatenate([ra[:0], ra]) if len(ra) else ra
    if how == "reduced":
        # the same array after read-only operations (row reductions, a scan, a difference, a sort, printing): nothing may have changed
        import warnings
        with np.errstate(all="ignore"), warnings.catch_warnings():
            warnings.simplefilter("ignore")
            for f in (lambda: ra.sum(axis=-1), lambda: ra.mean(axis=-1), lambda: ra.any(axis=-1), lambda: np.diff(ra, axis=-1),
                      lambda: ra.sort(axis=-1), lambda: str(ra), lambda: ra.max(axis=-1) if all(l > 0 for l in ra.lengths) else None):
                try:
                    f()
                except Exception:
                    pass
        return ra
    raise ValueError(how)
