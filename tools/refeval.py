#!/venv/bin/python
"""Evaluation tooling (not a check): runs every property check against behaviour-preserving REFACTORINGS of the
library, to measure false alarms.
usage: refeval.py <name>=<dir with patch.diff [meta.json]> [...]   (env REFEVAL_CHECKS="C01 C02 ..." to restrict)
Each patch is applied to a scratch COPY of /repo (never to /repo itself); the checks run from a frozen snapshot of
the machinery (tools, Lean project, known findings) under /root/scratch/refeval, with NPS_REPO pointing at the
patched copy, so neither /repo nor /verif/lean nor the evidence files are touched.
Result: /verif/refactors/<name>/{patch.diff, meta.json}."""
import sys, os, json, subprocess, shutil

VERIF = os.path.dirname(os.path.dirname(os.path.abspath(__file__)))
ALL = ["C%02d" % i for i in range(1, 20)]
SCR = os.environ.get("REFEVAL_SCR", "/root/scratch/refeval")      # (several instances may run side by side)


def sh(cmd, cwd=None, timeout=3000, env=None):
    p = subprocess.run(cmd, shell=True, cwd=cwd, stdout=subprocess.PIPE, stderr=subprocess.STDOUT, text=True, timeout=timeout, env=env)
    return p.returncode, "\n".join(l for l in p.stdout.splitlines() if "conda" not in l.lower())


def one(name, src, snap, ids):
    meta = json.load(open(os.path.join(src, "meta.json"))) if os.path.exists(os.path.join(src, "meta.json")) else {}
    patch = os.path.abspath(os.path.join(src, "patch.diff"))
    shutil.rmtree(SCR + "/repo", ignore_errors=True)
    sh(f"rsync -a --exclude .git --exclude docs --exclude docs_source --exclude benchmarks --exclude profiling --exclude __pycache__ /repo/ {SCR}/repo/")
    rc, out = sh(f"patch -p1 --no-backup-if-mismatch < {patch}", SCR + "/repo")
    if rc != 0:
        print(name, "patch does not apply:", out)
        return
    res = {}
    rc, out = sh("/venv/bin/python -m pytest -q -p no:cacheprovider 2>&1 | tail -1", SCR + "/repo")
    res["suite_with_patch"] = out.strip()
    env = {**os.environ, "NPS_REPO": SCR + "/repo", "PYTHONDONTWRITEBYTECODE": "1"}
    env.pop("VERIF_LEAN_DIR", None); env.pop("VERIF_OUT_DIR", None)
    res["checks"] = {}
    alarms = []
    for cid in ids:
        rc, out = sh(f"/venv/bin/python {snap}/tools/check.py {cid} quick", snap, env=env)
        lines = [l for l in out.splitlines() if l.startswith(("VIOLATION", "INFRA"))]
        res["checks"][cid] = {"exit": rc, "lines": lines, "summary": out.splitlines()[-1][:300] if out.strip() else ""}
        if rc != 0:
            alarms.append(cid)
            res["checks"][cid]["tail"] = out[-1500:]
            for l in lines:
                if "replay=" in l:
                    rp = l.split("replay=")[1].split()[0]
                    if os.path.exists(rp):
                        try:
                            res["checks"][cid]["replay"] = json.load(open(rp))
                        except Exception:
                            pass
                    break
    res["alarms"] = alarms
    meta["results"] = res
    dst = os.path.join(VERIF, "refactors", name)
    os.makedirs(dst, exist_ok=True)
    if os.path.abspath(patch) != os.path.abspath(dst + "/patch.diff"):
        shutil.copy(patch, dst + "/patch.diff")
    json.dump(meta, open(dst + "/meta.json", "w"), indent=1, default=str)
    print(name, "suite:", res["suite_with_patch"], "alarms:", alarms, flush=True)


def main():
    ids = os.environ.get("REFEVAL_CHECKS", "").split() or ALL
    snap = SCR + "/verif"
    shutil.rmtree(SCR, ignore_errors=True)
    os.makedirs(snap)
    for part in ("lean", "tools"):
        sh(f"rsync -a --exclude __pycache__ {VERIF}/{part}/ {snap}/{part}/")
    shutil.copy(VERIF + "/known_findings.json", snap + "/known_findings.json")
    for arg in sys.argv[1:]:
        name, src = arg.split("=", 1)
        one(name, src, snap, ids)
    shutil.rmtree(SCR, ignore_errors=True)


if __name__ == "__main__":
    main()
