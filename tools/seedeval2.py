#!/venv/bin/python
"""Evaluation tooling (not a check): confirms SEEDED breaking changes and runs the property checks against them WITHOUT
touching /repo (same mechanics as refeval.py; used while other evaluation jobs read /repo).
usage: seedeval2.py <name>=<dir with patch.diff demo.py [meta.json]>[:Cxx,Cyy extra checks] [...]
The check of the property named by <name> (e.g. C07-C -> C07) and the extra checks are run.  The demonstration runs in
the seed's own scratch worktree (<dir>/../..) with the patch applied there, and again without it.
Each patch is applied to a scratch COPY of /repo (never to /repo itself); the checks run from a frozen snapshot of
the machinery (tools, Lean project, known findings) under /root/scratch/refeval, with NPS_REPO pointing at the
patched copy, so neither /repo nor /verif/lean nor the evidence files are touched.
Result: /verif/refactors/<name>/{patch.diff, meta.json}."""
import sys, os, json, subprocess, shutil

VERIF = os.path.dirname(os.path.dirname(os.path.abspath(__file__)))
ALL = ["C%02d" % i for i in range(1, 20)]
SCR = os.environ.get("SEEDEVAL_SCR", "/root/scratch/seedeval2")      # (several instances may run side by side)


def sh(cmd, cwd=None, timeout=3000, env=None):
    p = subprocess.run(cmd, shell=True, cwd=cwd, stdout=subprocess.PIPE, stderr=subprocess.STDOUT, text=True, timeout=timeout, env=env)
    return p.returncode, "\n".join(l for l in p.stdout.splitlines() if "conda" not in l.lower())


def one(name, src, snap, ids):
    wt = os.path.abspath(os.path.join(src, "..", ".."))
    demo = os.path.relpath(os.path.join(src, "demo.py"), wt)
    meta = json.load(open(os.path.join(src, "meta.json"))) if os.path.exists(os.path.join(src, "meta.json")) else {}
    patch = os.path.abspath(os.path.join(src, "patch.diff"))
    shutil.rmtree(SCR + "/repo", ignore_errors=True)
    sh(f"rsync -a --exclude .git --exclude docs --exclude docs_source --exclude benchmarks --exclude profiling --exclude __pycache__ /repo/ {SCR}/repo/")
    rc, out = sh(f"patch -p1 --no-backup-if-mismatch < {patch}", SCR + "/repo")
    if rc != 0:
        print(name, "patch does not apply:", out)
        return
    res = {}
    rc, out = sh("/venv/bin/python -m pytest -q -p no:cacheprovider 2>&1 | tail -1", SCR + "/repo")
    res["suite_with_patch"] = out.strip()
    res["suite_passes_with_patch"] = (" failed" not in out) and ("passed" in out)
    sh(f"git apply {patch}", wt)
    rc, out = sh(f"/venv/bin/python {demo}", wt, timeout=600)
    res["demo_rc_with_patch"] = rc; res["demo_output_with_patch"] = out[-800:]
    sh("git checkout -- .", wt)
    rc, out = sh(f"/venv/bin/python {demo}", wt, timeout=600)
    res["demo_rc_without_patch"] = rc
    env = {**os.environ, "NPS_REPO": SCR + "/repo", "PYTHONDONTWRITEBYTECODE": "1"}
    env.pop("VERIF_LEAN_DIR", None); env.pop("VERIF_OUT_DIR", None)
    res["checks"] = {}
    alarms = []
    for cid in ids:
        rc, out = sh(f"/venv/bin/python {snap}/tools/check.py {cid} quick", snap, env=env)
        lines = [l for l in out.splitlines() if l.startswith(("VIOLATION", "INFRA"))]
        res["checks"][cid] = {"exit": rc, "lines": lines, "summary": out.splitlines()[-1][:300] if out.strip() else ""}
        if rc != 0:
            alarms.append(cid)
            res["checks"][cid]["tail"] = out[-1500:]
            for l in lines:
                if "replay=" in l:
                    rp = l.split("replay=")[1].split()[0]
                    if os.path.exists(rp):
                        try:
                            res["checks"][cid]["replay"] = json.load(open(rp))
                        except Exception:
                            pass
                    break
    res["alarms"] = alarms
    meta["results"] = res
    meta["confirmed"] = bool(res["suite_passes_with_patch"] and res["demo_rc_with_patch"] == 1 and res["demo_rc_without_patch"] == 0)
    meta["detected_by"] = alarms
    dst = os.path.join(VERIF, "seeded", name)
    os.makedirs(dst, exist_ok=True)
    shutil.copy(patch, dst + "/patch.diff")
    if os.path.exists(os.path.join(src, "demo.py")):
        shutil.copy(os.path.join(src, "demo.py"), dst + "/demo.py")
    json.dump(meta, open(dst + "/meta.json", "w"), indent=1, default=str)
    print(name, "confirmed" if meta["confirmed"] else "NOT-CONFIRMED", "suite:", res["suite_with_patch"], "demo:", res["demo_rc_with_patch"],
          res["demo_rc_without_patch"], "detected_by:", alarms, {c: v["exit"] for c, v in res["checks"].items()}, flush=True)


def main():
    snap = SCR + "/verif"
    shutil.rmtree(SCR, ignore_errors=True)
    os.makedirs(snap)
    frozen = os.environ.get("SEEDEVAL_SNAP")       # a snapshot of the machinery taken earlier (blind evaluation)
    src = frozen or VERIF
    for part in ("lean", "tools"):
        sh(f"rsync -a --exclude __pycache__ {src}/{part}/ {snap}/{part}/")
    shutil.copy(src + "/known_findings.json", snap + "/known_findings.json")
    for arg in sys.argv[1:]:
        name, src = arg.split("=", 1)
        extra = []
        if ":" in src:
            src, ex = src.split(":", 1)
            extra = [e for e in ex.split(",") if e]
        one(name, src, snap, [name.split("-")[0]] + extra)
    shutil.rmtree(SCR, ignore_errors=True)


if __name__ == "__main__":
    main()
